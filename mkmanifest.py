#!/usr/bin/env python3
"""Regenerates MANIFEST.json from harness/properties.json (claimed checks) and harness/not_applicable.json."""
import json, os
here = os.path.dirname(os.path.abspath(__file__))
specs = json.load(open(os.path.join(here, "harness/properties.json")))
na = json.load(open(os.path.join(here, "harness/not_applicable.json")))
props = [json.loads(l)["id"] for l in open(os.path.join(here, "properties.jsonl"))]
baseline = json.load(open("/root/.vp/BASELINE.json"))["cmd"] if os.path.exists("/root/.vp/BASELINE.json") else ""
checks = []
for pid in props:
    if pid not in specs:
        continue
    s = specs[pid]
    checks.append({
        "property_id": pid,
        "quick_cmd": f"./check {pid} quick",
        "thorough_cmd": f"./check {pid} thorough",
        "evidence_file": f"/verif/evidence/{pid}.json",
        "replay_cmd_template": "./bin/gosym replay {path}",
        "engine": "gosym",
        "level_claimed": {"category": s.get("level", "other"), "text": s.get("level_text", s.get("explanation", "")), "design_ref": s.get("design_ref", "DESIGN.md section 5, " + pid)},
        "level_note": s.get("level_note", "Bounded: " + "; ".join(f"{k}: {v}" for k, v in s.get("bounds", {}).items()) + ". Assumes: " + "; ".join(s.get("assumptions", [])) + ". Trusted base: go/ssa (x/tools v0.29.0), the gosym executor, cvc5 1.0.3 / z3 4.8.12, the listed stubs."),
        "technique": s.get("technique", ""),
    })
claimed = {c["property_id"] for c in checks}
manifest = {
    "version": 1,
    "setup_cmd": "./setup.sh",
    "hooks": {
        "guard": "verif",
        "enable": "go/packages load of /repo with -tags verif and a build overlay that adds /verif/harness/** (harnesses as in-package zz_verif_*.go files, internal/verifnd, internal/verifenv); no committed hook is required for the checks to run",
        "baseline_off_cmd": baseline,
        "source_commits": json.load(open(os.path.join(here, "harness/hook_commits.json"))) if os.path.exists(os.path.join(here, "harness/hook_commits.json")) else [],
        "add_only": True,
    },
    "engines": [{
        "name": "gosym", "path": "/verif/engine",
        "serves_properties": sorted(claimed),
        "kind_free_text": "symbolic executor for go/ssa (x/tools v0.29.0) with an SMT back end (cvc5 --incremental primary, z3 fall-back), written for this repository; harnesses are injected by build overlay; re-execution DFS over decision trails on 16 workers",
    }],
    "checks": checks,
    "not_applicable": [{"property_id": p, "reason": na[p]} for p in props if p not in claimed],
    "notes": "Every check loads /repo's current working tree on each run (nothing cached). INCONCLUSIVE lines are neither a pass nor an alarm (DESIGN.md 8.4). Known findings: /verif/known_findings.json.",
}
for p in props:
    if p not in claimed and p not in na:
        raise SystemExit(f"property {p} neither claimed nor in not_applicable.json")
json.dump(manifest, open(os.path.join(here, "MANIFEST.json"), "w"), indent=1)
print("MANIFEST.json:", len(checks), "checks,", len(manifest["not_applicable"]), "not applicable")
