#!/bin/sh
# seed_eval.sh <ID> [check ids...]: confirms a sub-agent's seeded change in its scratch worktree
# (demo fails with the change, passes without it, existing suite passes with it), then applies the
# patch to /repo, runs the given checks (default: the property's own), and undoes it.
ID="$1"; shift
CHECKS="${*:-$ID}"
WT=/tmp/wt/$ID; OUT=${OUTBASE:-/tmp/wt/out}/$ID
export GOFLAGS=-mod=mod GOPROXY=off GOSUMDB=off GOTOOLCHAIN=local
[ -f "$OUT/patch.diff" ] || { echo "no patch for $ID"; exit 2; }
DEMO_LINE=$(grep -m1 -o "go test[^\"]*" "$OUT/demo_test.go" | head -1)
[ -n "$DEMO_LINE" ] || DEMO_LINE=$(grep -m1 -o "go test.*" "$OUT/meta.txt" | head -1)
echo "--- $ID demo command: $DEMO_LINE"
cd "$WT" || exit 2
git checkout -q -- . && git apply "$OUT/patch.diff" || { echo "cannot restore worktree state"; exit 2; }
echo "--- [1] existing suite with the change"
go test -vet=off -count=1 ./... 2>&1 | grep -E "^(FAIL|---|panic)" | grep -v "build failed" | head -5
echo "--- [2] demo WITH the change (must fail)"
( eval "timeout 900 $DEMO_LINE" ) 2>&1 | grep -E "^(ok|FAIL|--- FAIL|panic)" | head -4
echo "--- [3] demo WITHOUT the change (must pass)"
git apply -R "$OUT/patch.diff"
( eval "timeout 900 $DEMO_LINE" ) 2>&1 | grep -E "^(ok|FAIL|--- FAIL|panic)" | head -4
git apply "$OUT/patch.diff"
echo "--- [4] checks on /repo with the patch applied"
cd /repo && git apply "$OUT/patch.diff" || { echo "patch does not apply"; exit 2; }
for c in $CHECKS; do
  /verif/check "$c" quick 2>&1 | grep -E "^VIOLATION|^  key=|^INCONCLUSIVE|^ENGINE|^property=" | cut -c1-330 | head -12
done
git -C /repo checkout -- . && git -C /repo status --short | head -3
