#!/bin/sh
# runs every registered check of a tier (or the listed ones: run_all.sh <tier> C05 C06 ...) in sequence and prints one summary line each
cd "$(dirname "$0")" || exit 2
TIER="${1:-quick}"; [ $# -gt 0 ] && shift
IDS="$*"
[ -x bin/gosym ] || ./setup.sh >/dev/null
[ -n "$IDS" ] || IDS=$(python3 -c "import json;print(' '.join(c['property_id'] for c in json.load(open('MANIFEST.json'))['checks']))")
for id in $IDS; do
  start=$(date +%s)
  out=$(./check "$id" "$TIER" 2>&1); rc=$?
  end=$(date +%s)
  echo "== $id tier=$TIER exit=$rc wall=$((end-start))s"
  echo "$out" | grep -E "VIOLATION|INCONCLUSIVE|ENGINE-MISMATCH|^property=" | cut -c1-400
done
