#!/bin/sh
# runs every registered check of a tier in sequence and prints one summary line each
cd "$(dirname "$0")" || exit 2
TIER="${1:-quick}"
[ -x bin/gosym ] || ./setup.sh >/dev/null
for id in $(python3 -c "import json;print(' '.join(c['property_id'] for c in json.load(open('MANIFEST.json'))['checks']))"); do
  start=$(date +%s)
  out=$(./check "$id" "$TIER" 2>&1); rc=$?
  end=$(date +%s)
  echo "== $id tier=$TIER exit=$rc wall=$((end-start))s"
  echo "$out" | grep -E "VIOLATION|INCONCLUSIVE|ENGINE-MISMATCH|^property=" | cut -c1-400
done
