package external_test

// Native demonstration of the C10 defect found by VerifH10d, against a real gRPC server on the
// loop-back interface: when the source reader of external SetReader fails, the client calls the
// stream writer's Close, which flushes the buffered tail and half-closes the stream; the server
// sees a clean end of the upload and stores the truncated content, while the client returns the
// reader's error. "If SetReader returns an error - the source reader fails - the key keeps the
// value it had before" is violated through the gRPC client (the inline client is correct).
// Run: native/demo.sh pkg/external findings/C10-external-source-failure/demo_test.go

import (
	"bytes"
	"context"
	"errors"
	"fmt"
	"io"
	"net"
	"testing"
	"time"

	"github.com/glebziz/fs_db/config"
	"github.com/glebziz/fs_db/internal/app"
	"github.com/glebziz/fs_db/pkg/external"
)

type failingReader struct {
	r    io.Reader
	left int
}

var errSource = errors.New("source reader failed")

func (f *failingReader) Read(p []byte) (int, error) {
	if f.left <= 0 {
		return 0, errSource
	}
	if len(p) > f.left {
		p = p[:f.left]
	}
	n, err := f.r.Read(p)
	f.left -= n
	return n, err
}

func TestDemoC10ExternalSourceFailure(t *testing.T) {
	dir := t.TempDir()
	l, err := net.Listen("tcp", "127.0.0.1:0")
	if err != nil {
		t.Fatal(err)
	}
	port := l.Addr().(*net.TCPAddr).Port
	l.Close()
	cfg := config.Config{Port: port, Storage: config.Storage{DbPath: dir + "/db", MaxDirCount: 1000, RootDirs: []string{dir + "/root"}, GCPeriod: time.Hour},
		WPool: config.WPool{NumWorkers: 1, SendDuration: time.Millisecond}}
	ctx, cancel := context.WithCancel(context.Background())
	a, err := app.New(ctx, cfg)
	if err != nil {
		t.Fatal(err)
	}
	done := make(chan struct{})
	go func() { a.Run(ctx); close(done) }()
	defer func() { cancel(); <-done; a.Stop() }()
	time.Sleep(200 * time.Millisecond)

	d, err := external.Open(ctx, fmt.Sprintf("127.0.0.1:%d", port))
	if err != nil {
		t.Fatal(err)
	}
	old := []byte("the value before")
	if err := d.Set(ctx, "k", old); err != nil {
		t.Fatal(err)
	}
	src := bytes.Repeat([]byte("0123456789"), 1000) // 10 000 bytes, the reader fails after 5 000
	err = d.SetReader(ctx, "k", &failingReader{r: bytes.NewReader(src), left: 5000})
	if err == nil {
		t.Fatal("SetReader with a failing source returned nil")
	}
	time.Sleep(100 * time.Millisecond)
	got, gerr := d.Get(ctx, "k")
	if gerr != nil {
		t.Fatalf("Get after the failed SetReader: %v", gerr)
	}
	if !bytes.Equal(got, old) {
		t.Fatalf("SetReader failed (%v) but the key changed: Get returns %d bytes (a truncated upload of the failed source), want the %d bytes it had before", err, len(got), len(old))
	}
}
