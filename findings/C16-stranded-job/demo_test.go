package wpool

// Native (stress) demonstration of the C16 defect found by VerifH16 (2 Sends, preemption bound 2):
// the deferred-send flusher pops nil and unlocks the list, and only later - in its deferred call -
// releases the single-flusher try-lock; a lazySend arriving in between appends its event, fails
// TryLock and returns, and the event stays in the deferred list until some later Send happens to
// take the deferred path. The engine's schedule is the deterministic witness (key
// wpool.VerifH16:assert:H16.accepted-job-not-run-at-quiescence-without-further-sends).
// Run: native/demo.sh internal/utils/wpool findings/C16-stranded-job/demo_test.go

import (
	"context"
	"sync"
	"sync/atomic"
	"testing"
	"time"
)

func TestDemoC16StrandedJob(t *testing.T) {
	ctx := context.Background()
	for round := 0; round < 3000; round++ {
		p := New(Options{NumWorkers: 1, SendDuration: 1}) // 1ns: the deferred path is taken all the time
		p.Run(ctx)
		const n = 40
		var ran [n]atomic.Int32
		var wg sync.WaitGroup
		for s := 0; s < 2; s++ {
			wg.Add(1)
			go func(s int) {
				defer wg.Done()
				for i := s; i < n; i += 2 {
					i := i
					p.Send(ctx, Event{Caller: "demo", Fn: func(context.Context) error { ran[i].Add(1); return nil }})
				}
			}(s)
		}
		wg.Wait()
		deadline := time.Now().Add(300 * time.Millisecond)
		missing := -1
		for {
			missing = -1
			for i := range ran {
				if ran[i].Load() == 0 {
					missing = i
				}
			}
			if missing < 0 || time.Now().After(deadline) {
				break
			}
			time.Sleep(time.Millisecond)
		}
		p.Stop()
		if missing >= 0 {
			t.Fatalf("round %d: job %d was accepted by Send but not run 300ms after the last Send (stranded in the deferred list)", round, missing)
		}
	}
}
