package wpool

// Deterministic companion of demo_test.go: the pinned lazy_send.go with one added call in the
// window (between the flusher's list unlock and its deferred try-lock release). With the window
// held open a second deferred Send is stranded. Run by native/demo_c16.sh, which overlays the
// pinned file (plus the delay hook) over the current one.

import (
	"context"
	"sync/atomic"
	"testing"
	"time"
)

func TestDemoC16Window(t *testing.T) {
	ctx := context.Background()
	p := New(Options{NumWorkers: 1, SendDuration: 1})
	p.Run(ctx)
	defer p.Stop()
	inWindow := make(chan struct{})
	release := make(chan struct{})
	first := true
	windowDelay = func() {
		if first {
			first = false
			inWindow <- struct{}{}
			<-release
		}
	}
	var ran [2]atomic.Int32
	p.lazySend(Event{ctx: ctx, Caller: "demo", Fn: func(context.Context) error { ran[0].Add(1); return nil }})
	<-inWindow // the flusher has sent job 0, popped nil, unlocked the list, not yet released the try-lock
	p.lazySend(Event{ctx: ctx, Caller: "demo", Fn: func(context.Context) error { ran[1].Add(1); return nil }})
	release <- struct{}{}
	time.Sleep(200 * time.Millisecond)
	if ran[1].Load() != 1 {
		t.Fatalf("job 1 was accepted but has not run 200ms later: it sits in the deferred list with no flusher (ran: %d %d)", ran[0].Load(), ran[1].Load())
	}
}
