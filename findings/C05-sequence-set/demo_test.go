package inline_test

// Native demonstration of the C05 defect found by VerifH05a (process counter != 0 and below the
// greatest persisted sequence number): a process that has already opened one database opens a
// second one that holds more versions; a write acknowledged there is lost at the next reopen.
// Run: native/demo.sh pkg/inline findings/C05-sequence-set/demo_test.go

import (
	"context"
	"testing"

	"github.com/glebziz/fs_db/config"
	"github.com/glebziz/fs_db/pkg/inline"
)

func cfg(dir string) config.Config {
	return config.Config{Storage: config.Storage{DbPath: dir + "/db", MaxDirCount: 1000, RootDirs: []string{dir + "/root"}, GCPeriod: 1 << 40},
		WPool: config.WPool{NumWorkers: 1, SendDuration: 1000000}}
}

func TestDemoC05(t *testing.T) {
	ctx := context.Background()
	dirA, dirB := t.TempDir(), t.TempDir()

	// "earlier process": database B receives 50 versions of key k. Modelled in this process by
	// running it first and then resetting nothing: the counter is process-global, so instead the
	// order of opening is what matters: B is written, closed, then A (fresh) is opened BEFORE B
	// is reopened.
	b, err := inline.Open(ctx, cfg(dirB))
	if err != nil {
		t.Fatal(err)
	}
	for i := 0; i < 50; i++ {
		if err := b.Set(ctx, "k", []byte("old")); err != nil {
			t.Fatal(err)
		}
	}
	b.Close()
	resetCounter() // a new process starts with counter 0

	a, err := inline.Open(ctx, cfg(dirA)) // fresh database first: Load sets the counter to 1
	if err != nil {
		t.Fatal(err)
	}
	defer a.Close()
	b, err = inline.Open(ctx, cfg(dirB)) // Load cannot raise the counter any more
	if err != nil {
		t.Fatal(err)
	}
	if err := b.Set(ctx, "k", []byte("new")); err != nil {
		t.Fatal(err)
	}
	got, err := b.Get(ctx, "k")
	if err != nil || string(got) != "new" {
		t.Fatalf("immediately after the write: %q %v", got, err)
	}
	b.Close()
	b, err = inline.Open(ctx, cfg(dirB))
	if err != nil {
		t.Fatal(err)
	}
	defer b.Close()
	got, err = b.Get(ctx, "k")
	if err != nil || string(got) != "new" {
		t.Fatalf("after reopen the acknowledged write is lost: got %q err %v, want \"new\"", got, err)
	}
}
