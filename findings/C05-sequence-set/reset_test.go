package inline_test

import (
	_ "unsafe"
)

//go:linkname seqCounter github.com/glebziz/fs_db/internal/model/sequence.seq
var seqCounter uint64

// resetCounter models the start of a new process (the counter is a package-level variable).
func resetCounter() { seqCounter = 0 }
