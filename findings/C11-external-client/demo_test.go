package external_test

// Native demonstration of the C11 defects found by VerifH11a, against a real gRPC server on the
// loop-back interface: (1) external Set/SetReader returned nil when the server rejected the write
// (the verdict arrives with CloseAndRecv, whose result was discarded); (2) Close of a file from
// external Create returned the raw status error, so errors.Is(err, fs_db.ErrEmptyKey) was false.
// Run: native/demo.sh pkg/external findings/C11-external-client/demo_test.go

import (
	"context"
	"errors"
	"fmt"
	"net"
	"testing"
	"time"

	"github.com/glebziz/fs_db"
	"github.com/glebziz/fs_db/config"
	"github.com/glebziz/fs_db/internal/app"
	"github.com/glebziz/fs_db/pkg/external"
)

func freePort(t *testing.T) int {
	l, err := net.Listen("tcp", "127.0.0.1:0")
	if err != nil {
		t.Fatal(err)
	}
	defer l.Close()
	return l.Addr().(*net.TCPAddr).Port
}

func TestDemoC11(t *testing.T) {
	dir := t.TempDir()
	port := freePort(t)
	cfg := config.Config{Port: port, Storage: config.Storage{DbPath: dir + "/db", MaxDirCount: 1000, RootDirs: []string{dir + "/root"}, GCPeriod: time.Hour},
		WPool: config.WPool{NumWorkers: 1, SendDuration: time.Millisecond}}
	ctx, cancel := context.WithCancel(context.Background())
	a, err := app.New(ctx, cfg)
	if err != nil {
		t.Fatal(err)
	}
	done := make(chan struct{})
	go func() { a.Run(ctx); close(done) }()
	defer func() { cancel(); <-done; a.Stop() }()
	time.Sleep(200 * time.Millisecond)

	d, err := external.Open(ctx, fmt.Sprintf("127.0.0.1:%d", port))
	if err != nil {
		t.Fatal(err)
	}
	if err := d.Set(ctx, "", []byte("x")); !errors.Is(err, fs_db.ErrEmptyKey) {
		t.Errorf("external Set with an empty key: err = %v, want ErrEmptyKey (the inline client returns it)", err)
	}
	f, err := d.Create(ctx, "")
	if err != nil {
		t.Fatal(err)
	}
	f.Write([]byte("x"))
	if err := f.Close(); !errors.Is(err, fs_db.ErrEmptyKey) {
		t.Errorf("external Create(\"\").Close(): err = %v, errors.Is(err, ErrEmptyKey) = false (inline: true)", err)
	}
}
