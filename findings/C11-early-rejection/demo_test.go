package external_test

// Native demonstration of a C11 defect pointed out by the round-5 C11 seeding agent and modelled
// by VerifH11e, against a real gRPC server on the loop-back interface: when the server rejects
// an upload before it has consumed it (empty key: the handler returns right after the header),
// a large upload's later Send calls return io.EOF - gRPC's way of saying "the RPC is over, ask
// for the status". The stream writer and SetReader map that io.EOF as if it were the error:
// the caller gets ErrUnknown, the inline client (and the same call with a small content) gets
// ErrEmptyKey.
// Run: native/demo.sh pkg/external findings/C11-early-rejection/demo_test.go

import (
	"bytes"
	"context"
	"errors"
	"fmt"
	"net"
	"testing"
	"time"

	"github.com/glebziz/fs_db"
	"github.com/glebziz/fs_db/config"
	"github.com/glebziz/fs_db/internal/app"
	"github.com/glebziz/fs_db/pkg/external"
)

func TestDemoC11EarlyRejection(t *testing.T) {
	dir := t.TempDir()
	l, err := net.Listen("tcp", "127.0.0.1:0")
	if err != nil {
		t.Fatal(err)
	}
	port := l.Addr().(*net.TCPAddr).Port
	l.Close()
	cfg := config.Config{Port: port, Storage: config.Storage{DbPath: dir + "/db", MaxDirCount: 1000, RootDirs: []string{dir + "/root"}, GCPeriod: time.Hour},
		WPool: config.WPool{NumWorkers: 1, SendDuration: time.Millisecond}}
	ctx, cancel := context.WithCancel(context.Background())
	a, err := app.New(ctx, cfg)
	if err != nil {
		t.Fatal(err)
	}
	done := make(chan struct{})
	go func() { a.Run(ctx); close(done) }()
	defer func() { cancel(); <-done; a.Stop() }()
	time.Sleep(200 * time.Millisecond)

	d, err := external.Open(ctx, fmt.Sprintf("127.0.0.1:%d", port))
	if err != nil {
		t.Fatal(err)
	}
	for _, n := range []int{1, 1 << 12, 1 << 20, 8 << 20} {
		err := d.Set(ctx, "", bytes.Repeat([]byte("x"), n))
		if !errors.Is(err, fs_db.ErrEmptyKey) {
			t.Errorf("Set(\"\", %d bytes): err = %v; want the class ErrEmptyKey (what the inline client and smaller uploads report)", n, err)
		}
	}
}
