package async

// Native demonstration of the C12 defects found by VerifH12.
//  1. an empty Write wakes the reader, which returns io.EOF from an empty buffer: the storing
//     side finishes early, later writes are lost, Close reports success (deterministic below);
//  2. Close stores `closed` and broadcasts without holding the mutex: a reader that has tested
//     the condition but not yet parked misses the wake-up and both sides block forever (needs one
//     precise interleaving; shown by the engine's schedule, key
//     async.VerifH12:deadlock:deadlock:internal/utils/async/read_writer.go:59).
// Run: native/demo.sh internal/utils/async findings/C12-async-readwriter/demo_test.go

import (
	"bytes"
	"io"
	"testing"
	"time"
)

func TestDemoC12EmptyWrite(t *testing.T) {
	rw := NewReadWriter()
	rw.Add(1)
	var sink bytes.Buffer
	go func() {
		defer rw.Done()
		io.Copy(&sink, rw)
	}()
	rw.Write([]byte("ab"))
	time.Sleep(50 * time.Millisecond) // the reader drains "ab" and parks
	rw.Write(nil)
	time.Sleep(50 * time.Millisecond) // the reader wakes up with an empty buffer
	rw.Write([]byte("cd"))
	if err := rw.Close(); err != nil {
		t.Fatal(err)
	}
	if got := sink.String(); got != "abcd" {
		t.Fatalf("Close returned nil but the stored content is %q, want %q", got, "abcd")
	}
}
