package streamreader_test

// Native demonstration of the C10 defect found by VerifH10b: the stream reader left its loop on
// ANY Recv error and then reported a clean io.EOF once its buffer was drained, so an upload whose
// stream broke (connection reset, client cancelled) was stored truncated and acknowledged.
// Run: native/demo.sh internal/utils/grpc/streamreader findings/C10-broken-stream/demo_test.go

import (
	"errors"
	"io"
	"testing"

	"github.com/glebziz/fs_db/internal/utils/grpc/streamreader"
)

type chunk []byte

func (c chunk) GetChunk() []byte { return c }

type brokenStream struct{ n int }

var errReset = errors.New("connection reset by peer")

func (s *brokenStream) Recv() (chunk, error) {
	s.n++
	if s.n == 1 {
		return chunk("first chunk"), nil
	}
	return nil, errReset
}

func TestDemoC10BrokenStream(t *testing.T) {
	b, err := io.ReadAll(streamreader.New[chunk](&brokenStream{}))
	if err == nil {
		t.Fatalf("the stream broke after %q but the reader reported a clean end of data (err == nil)", b)
	}
	if !errors.Is(err, errReset) {
		t.Fatalf("unexpected error %v", err)
	}
}
