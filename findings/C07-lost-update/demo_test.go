package inline_test

// Native (stress) demonstration of the C07 defect found by VerifH07 at preemption bound 1: two
// Serializable transactions that both began before either committed write the same key and commit
// from two goroutines; on the pinned tree both Commit calls can return nil (the conflict test ran
// under a read lock that was released before the write lock for publication was taken).
// The window is a few instructions wide, so this test repeats the race; the engine's schedule is
// the deterministic witness (key verifstack.VerifH07:assert:H07.at-most-one-commit-succeeds).
// Run: native/demo.sh pkg/inline findings/C07-lost-update/demo_test.go

import (
	"context"
	"sync"
	"testing"

	"github.com/glebziz/fs_db"
	"github.com/glebziz/fs_db/config"
	"github.com/glebziz/fs_db/pkg/inline"
)

func TestDemoC07(t *testing.T) {
	ctx := context.Background()
	dir := t.TempDir()
	d, err := inline.Open(ctx, config.Config{Storage: config.Storage{DbPath: dir + "/db", MaxDirCount: 100, RootDirs: []string{dir + "/root"}, GCPeriod: 1 << 40},
		WPool: config.WPool{NumWorkers: 2, SendDuration: 1000000}})
	if err != nil {
		t.Fatal(err)
	}
	defer d.Close()
	for round := 0; round < 4000; round++ {
		t1, _ := d.Begin(ctx, fs_db.IsoLevelSerializable)
		t2, _ := d.Begin(ctx, fs_db.IsoLevelSerializable)
		if err := t1.Set(ctx, "k", []byte("one")); err != nil {
			t.Fatal(err)
		}
		if err := t2.Set(ctx, "k", []byte("two")); err != nil {
			t.Fatal(err)
		}
		var wg sync.WaitGroup
		var e1, e2 error
		start := make(chan struct{})
		wg.Add(2)
		go func() { defer wg.Done(); <-start; e1 = t1.Commit(ctx) }()
		go func() { defer wg.Done(); <-start; e2 = t2.Commit(ctx) }()
		close(start)
		wg.Wait()
		if e1 == nil && e2 == nil {
			t.Fatalf("round %d: both Serializable transactions that wrote key k committed successfully (lost update)", round)
		}
	}
}
