package inline_test

// Native confirmation of the C15 findings with the Go race detector (go test -race):
//  - first use of an operation from two goroutines right after Open (lazily built DI singletons),
//  - concurrent Sets shuffling directory candidates with one shared *rand.Rand,
//  - the collector iterating the transaction registry (omap.Iter/Next) without its lock while
//    Begin/Commit mutate it.
// Run: DEMO_RACE=1 native/demo.sh pkg/inline findings/C15-races/demo_test.go

import (
	"context"
	"sync"
	"testing"

	"github.com/glebziz/fs_db/config"
	"github.com/glebziz/fs_db/internal/di"
	"github.com/glebziz/fs_db/pkg/inline"
)

func raceCfg(t *testing.T) config.Config {
	dir := t.TempDir()
	return config.Config{Storage: config.Storage{DbPath: dir + "/db", MaxDirCount: 1000, RootDirs: []string{dir + "/r1", dir + "/r2"}, GCPeriod: 1 << 40},
		WPool: config.WPool{NumWorkers: 1, SendDuration: 1000000}}
}

func TestDemoC15FirstUseAndShuffle(t *testing.T) {
	ctx := context.Background()
	d, err := inline.Open(ctx, raceCfg(t))
	if err != nil {
		t.Fatal(err)
	}
	defer d.Close()
	var wg sync.WaitGroup
	for g := 0; g < 2; g++ {
		wg.Add(1)
		go func(g int) {
			defer wg.Done()
			for i := 0; i < 50; i++ {
				d.Set(ctx, string(rune('a'+g)), []byte("x"))
			}
		}(g)
	}
	wg.Wait()
}

func TestDemoC15RegistryIteration(t *testing.T) {
	ctx := context.Background()
	c := di.New(raceCfg(t))
	c.Pool().Run(ctx)
	defer func() { c.Pool().Stop(); c.Badger().Close() }()
	if _, err := c.Core().Load(ctx); err != nil {
		t.Fatal(err)
	}
	txuc, cl := c.Transaction(), c.Cleaner()
	var wg sync.WaitGroup
	wg.Add(2)
	go func() {
		defer wg.Done()
		for i := 0; i < 200; i++ {
			txuc.Begin(ctx, 1)
		}
	}()
	go func() {
		defer wg.Done()
		for i := 0; i < 200; i++ {
			cl.DeleteOld(ctx)
		}
	}()
	wg.Wait()
}
