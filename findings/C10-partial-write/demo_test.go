package inline_test

// Native demonstration of the C10 defect found by VerifH10a: when a Write to the content file is
// short (n > 0 bytes accepted, then ENOSPC) the retry on the next root re-reads
// file ++ whole failed chunk ++ rest, so the n accepted bytes are stored twice and the write is
// reported as successful.
// Run: native/demo.sh pkg/inline findings/C10-partial-write/demo_test.go   (with the overlay
//      internal/utils/os/zz_demo_write_hook.go, see native/demo_c10.sh)

import (
	"bytes"
	"context"
	"errors"
	"os"
	"strings"
	"testing"

	"github.com/glebziz/fs_db/internal/model"
	"github.com/glebziz/fs_db/internal/repository/content"
	vos "github.com/glebziz/fs_db/internal/utils/os"
)

func TestDemoC10PartialWrite(t *testing.T) {
	dir := t.TempDir()
	src := bytes.Repeat([]byte("0123456789"), 5000) // 50 000 bytes: two chunks of the 32 KiB copy buffer
	writes := 0
	vos.WriteHook = func(name string, p []byte) (int, bool) {
		if !strings.HasSuffix(name, "/A") {
			return 0, false
		}
		writes++
		return 100, writes == 2 // the second write to A accepts 100 bytes, then the device is full
	}
	defer func() { vos.WriteHook = nil }()
	r := content.New()
	ctx := context.Background()
	err := r.Store(ctx, dir+"/A", bytes.NewReader(src))
	var ne model.NotEnoughSpaceError
	if !errors.As(err, &ne) {
		t.Fatalf("expected NotEnoughSpaceError, got %v", err)
	}
	// what store.UseCase.Set does next: continue on the root with more free space
	err = r.Store(ctx, dir+"/B", ne.Reader())
	ne.Close()
	if err != nil {
		t.Fatal(err)
	}
	got, _ := os.ReadFile(dir + "/B")
	if !bytes.Equal(got, src) {
		t.Fatalf("stored %d bytes for a %d-byte source (reported as success): the partially written bytes are duplicated", len(got), len(src))
	}
}
