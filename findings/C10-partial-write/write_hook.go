package os

// Demonstration-only overlay (never committed to the repository): lets a test make File.Write
// accept a prefix of the buffer and report "no space left on device", as a real file system does
// when it fills up in the middle of a write.

var WriteHook func(name string, p []byte) (accept int, fail bool)

func (f File) Write(p []byte) (int, error) {
	if WriteHook != nil {
		if n, fail := WriteHook(f.File.Name(), p); fail {
			m, _ := f.File.Write(p[:n])
			return m, ErrNotEnoughSpace
		}
	}
	return f.File.Write(p)
}
