package wpool

// Native demonstration of the C16 defect found by VerifH16d: two Stop calls at the same time on a
// running pool (two goroutines closing the database, a signal handler and a deferred Close, ...).
// The running-lock is held since Run, so BOTH calls fail their TryLock test and both run the
// whole shutdown: the second close(p.ch) panics ("close of closed channel") or the second
// deferred Unlock dies with the unrecoverable "fatal error: sync: unlock of unlocked mutex".
// The test runs the racing pair in a child process because the fatal error cannot be recovered.
// Run: native/demo.sh internal/utils/wpool findings/C16-concurrent-stop/demo_test.go

import (
	"context"
	"os"
	"os/exec"
	"strings"
	"sync"
	"testing"
)

func TestDemoC16ConcurrentStop(t *testing.T) {
	if os.Getenv("DEMO_C16_CHILD") == "1" {
		for i := 0; i < 20000; i++ {
			p := New(Options{NumWorkers: 1})
			p.Run(context.Background())
			var wg sync.WaitGroup
			start := make(chan struct{})
			for g := 0; g < 2; g++ {
				wg.Add(1)
				go func() {
					defer wg.Done()
					<-start
					p.Stop()
				}()
			}
			close(start)
			wg.Wait()
		}
		return
	}
	cmd := exec.Command(os.Args[0], "-test.run", "TestDemoC16ConcurrentStop", "-test.count=1")
	cmd.Env = append(os.Environ(), "DEMO_C16_CHILD=1")
	out, err := cmd.CombinedOutput()
	if err != nil {
		s := string(out)
		what := "failed"
		switch {
		case strings.Contains(s, "close of closed channel"):
			what = "panicked: close of closed channel"
		case strings.Contains(s, "unlock of unlocked mutex"):
			what = "died: fatal error: sync: unlock of unlocked mutex"
		}
		t.Fatalf("two concurrent Stop calls on a running pool: the process %s (%v)", what, err)
	}
}
