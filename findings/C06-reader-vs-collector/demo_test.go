package inline_test

// Deterministic native demonstration of the C06 known finding (VerifH06): store.UseCase.Get
// resolves the version under the core's locks and only then - with no lock held - looks up the
// content record and opens the content file. An overwrite followed by a collection in between
// removes that version's content, and a key that had a value throughout reads as ErrNotFound
// (the same window makes GetKeys omit the key). Everything is the real code; the content-record
// repository handed to the store use case is wrapped so the test can stop the reader in the
// window the engine's schedule goes through.
// Run: native/demo.sh pkg/inline findings/C06-reader-vs-collector/demo_test.go

import (
	"bytes"
	"context"
	"testing"

	"github.com/glebziz/fs_db/config"
	"github.com/glebziz/fs_db/internal/di"
	"github.com/glebziz/fs_db/internal/model"
	"github.com/glebziz/fs_db/internal/usecase/store"
)

type gatedContentRecords struct {
	inner interface {
		Store(ctx context.Context, file model.ContentFile) error
		Get(ctx context.Context, id string) (model.ContentFile, error)
	}
	gate    bool
	arrived chan struct{}
	release chan struct{}
}

func (g *gatedContentRecords) Store(ctx context.Context, f model.ContentFile) error {
	return g.inner.Store(ctx, f)
}
func (g *gatedContentRecords) Get(ctx context.Context, id string) (model.ContentFile, error) {
	if g.gate {
		g.gate = false
		g.arrived <- struct{}{}
		<-g.release
	}
	return g.inner.Get(ctx, id)
}

func TestDemoC06ReaderVsCollector(t *testing.T) {
	dir := t.TempDir()
	cfg := config.Config{Storage: config.Storage{DbPath: dir + "/db", MaxDirCount: 1000, RootDirs: []string{dir + "/root"}, GCPeriod: 1 << 40},
		WPool: config.WPool{NumWorkers: 1, SendDuration: 1000000}}
	c := di.New(cfg)
	ctx := context.Background()
	c.Pool().Run(ctx)
	if _, err := c.Core().Load(ctx); err != nil {
		t.Fatal(err)
	}
	defer func() { c.Pool().Stop(); c.Badger().Close() }()
	g := &gatedContentRecords{inner: c.ContentFileRepo(), arrived: make(chan struct{}), release: make(chan struct{})}
	reader := store.New(c.Dir(), c.ContentRepo(), g, c.Core(), c.TransactionRepo(), c.Gen(), c.Rand())

	if err := c.Store().Set(ctx, "k", bytes.NewReader([]byte("v1"))); err != nil {
		t.Fatal(err)
	}
	g.gate = true
	errc := make(chan error)
	go func() {
		r, err := reader.Get(ctx, "k") // resolves version v1, then waits before the content-record lookup
		if err == nil {
			r.Close()
		}
		errc <- err
	}()
	<-g.arrived
	if err := c.Store().Set(ctx, "k", bytes.NewReader([]byte("v2"))); err != nil {
		t.Fatal(err)
	}
	if err := c.Cleaner().DeleteOld(ctx); err != nil { // collects v1 and deletes its content
		t.Fatal(err)
	}
	g.release <- struct{}{}
	if err := <-errc; err != nil {
		t.Fatalf("Get of key k, which had a value (v1, then v2) throughout: %v", err)
	}
}
