package inline_test

// Native demonstration of the C13 finding (VerifH13 / VerifH13b): a write through a transaction
// handle whose transaction has already been committed is accepted, a ReadUncommitted observer
// reads it, and Rollback through the same handle does not remove it.
// Run: native/demo.sh pkg/inline findings/C13-late-write/demo_test.go

import (
	"context"
	"errors"
	"testing"

	"github.com/glebziz/fs_db"
	"github.com/glebziz/fs_db/config"
	"github.com/glebziz/fs_db/pkg/inline"
)

func TestDemoC13(t *testing.T) {
	ctx := context.Background()
	dir := t.TempDir()
	d, err := inline.Open(ctx, config.Config{Storage: config.Storage{DbPath: dir + "/db", MaxDirCount: 1000, RootDirs: []string{dir + "/root"}, GCPeriod: 1 << 40},
		WPool: config.WPool{NumWorkers: 1, SendDuration: 1000000}})
	if err != nil {
		t.Fatal(err)
	}
	defer d.Close()
	ru, _ := d.Begin(ctx, fs_db.IsoLevelReadUncommitted)
	tx, _ := d.Begin(ctx)
	if err := tx.Commit(ctx); err != nil {
		t.Fatal(err)
	}
	err = tx.Set(ctx, "k", []byte("late"))
	if !errors.Is(err, fs_db.ErrTxNotFound) {
		t.Errorf("Set through a committed transaction: err = %v, want ErrTxNotFound", err)
	}
	if b, gerr := ru.Get(ctx, "k"); gerr == nil {
		t.Errorf("a ReadUncommitted observer reads %q written through the ended transaction", b)
	}
	if err := tx.Rollback(ctx); err != nil {
		t.Fatal(err)
	}
	if b, gerr := ru.Get(ctx, "k"); gerr == nil {
		t.Errorf("after Rollback through the ended handle the observer still reads %q", b)
	}
}
