package wpool

// Native demonstration of the second C16 defect (VerifH16c): Send on a pool whose Run has not
// been called yet dereferences the nil pool context and panics, although "Send/Stop/Run in any
// order" must not panic.
// Run: native/demo.sh internal/utils/wpool findings/C16-send-before-run/demo_test.go

import (
	"context"
	"testing"
)

func TestDemoC16SendBeforeRun(t *testing.T) {
	defer func() {
		if r := recover(); r != nil {
			t.Fatalf("Send before the first Run panicked: %v", r)
		}
	}()
	p := New(Options{NumWorkers: 1})
	p.Send(context.Background(), Event{Caller: "demo", Fn: func(context.Context) error { return nil }})
	p.Stop()
}
