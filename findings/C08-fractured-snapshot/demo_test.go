package inline_test

// Native (stress) demonstration of the C08 defect found by VerifH08a: a RepeatableRead transaction
// whose Begin races with a two-key Commit sees one key of that commit but not the other. On the
// pinned tree UpdateTx drew one sequence number per key, so a Begin could draw its snapshot point
// between them. The engine's schedule is the deterministic witness
// (key verifstack.VerifH08a:assert:H08a.snapshot-sees-all-or-nothing-of-a-commit).
// Run: native/demo.sh pkg/inline findings/C08-fractured-snapshot/demo_test.go

import (
	"context"
	"fmt"
	"sync"
	"testing"

	"github.com/glebziz/fs_db"
	"github.com/glebziz/fs_db/config"
	"github.com/glebziz/fs_db/pkg/inline"
)

func TestDemoC08(t *testing.T) {
	ctx := context.Background()
	dir := t.TempDir()
	d, err := inline.Open(ctx, config.Config{Storage: config.Storage{DbPath: dir + "/db", MaxDirCount: 100, RootDirs: []string{dir + "/root"}, GCPeriod: 1 << 40},
		WPool: config.WPool{NumWorkers: 2, SendDuration: 1000000}})
	if err != nil {
		t.Fatal(err)
	}
	defer d.Close()
	d.Set(ctx, "a", []byte("0"))
	d.Set(ctx, "b", []byte("0"))
	for round := 1; round < 20000; round++ {
		val := []byte(fmt.Sprint(round))
		tx, _ := d.Begin(ctx)
		tx.Set(ctx, "a", val)
		tx.Set(ctx, "b", val)
		var wg sync.WaitGroup
		var a, b []byte
		start := make(chan struct{})
		wg.Add(2)
		go func() { defer wg.Done(); <-start; tx.Commit(ctx) }()
		go func() {
			defer wg.Done()
			<-start
			r, _ := d.Begin(ctx, fs_db.IsoLevelRepeatableRead)
			a, _ = r.Get(ctx, "a")
			b, _ = r.Get(ctx, "b")
			r.Rollback(ctx)
		}()
		close(start)
		wg.Wait()
		if string(a) != string(b) {
			t.Fatalf("round %d: snapshot reader saw a=%q b=%q - part of one commit", round, a, b)
		}
	}
}
