package store

// Native demonstration of the C10 defect found by VerifH10c: two consecutive no-space hand-overs.
// Root A accepts 100 bytes and is full; root B reports more free space than A but (another writer
// got there first) is full after 40 bytes; root C has room. Set closes A's partial file as soon as
// B fails - but the rest of B's input (NotEnoughSpaceError.End) is the MultiReader that is still
// positioned inside A's partial file, so the third attempt dies with "file already closed" and
// Set fails although a root with more free space has room.
// Run: native/demo_c10b.sh  (overlays internal/utils/os/zz_demo_write_hook.go as well)

import (
	"bytes"
	"context"
	"math/rand/v2"
	"os"
	"path"
	"strings"
	"testing"

	"go.uber.org/mock/gomock"

	"github.com/glebziz/fs_db/internal/model"
	"github.com/glebziz/fs_db/internal/repository/content"
	vos "github.com/glebziz/fs_db/internal/utils/os"
)

func TestDemoC10DoubleHandover(t *testing.T) {
	base := t.TempDir()
	capacity := map[string]int{"A": 100, "B": 40, "C": 1 << 30}
	free := map[string]uint64{"A": 100, "B": 300, "C": 1 << 30}
	written := map[string]int{}
	vos.WriteHook = func(name string, p []byte) (int, bool) {
		root := path.Base(path.Dir(name))
		left := capacity[root] - written[root]
		if len(p) <= left {
			written[root] += len(p)
			return 0, false
		}
		written[root] += left
		return left, true
	}
	defer func() { vos.WriteHook = nil }()

	src := bytes.Repeat([]byte("0123456789"), 100)
	perms := [][]string{{"A", "B", "C"}, {"A", "C", "B"}, {"B", "A", "C"}, {"B", "C", "A"}, {"C", "A", "B"}, {"C", "B", "A"}}
	for _, perm := range perms {
		for k := range written {
			delete(written, k)
		}
		var dirs model.Dirs
		for _, n := range perm {
			d := model.Dir{Name: n, Root: base, Free: free[n]}
			if err := os.MkdirAll(d.Path(), 0o700); err != nil {
				t.Fatal(err)
			}
			dirs = append(dirs, d)
		}
		td := newTestDeps(t)
		td.dir.EXPECT().Get(gomock.Any()).Return(dirs, nil)
		var stored []model.ContentFile
		td.cfRepo.EXPECT().Store(gomock.Any(), gomock.Any()).
			DoAndReturn(func(_ context.Context, f model.ContentFile) error {
				stored = append(stored, f)
				return nil
			}).AnyTimes()
		td.fRepo.EXPECT().Store(gomock.Any(), gomock.Any()).Return(nil).AnyTimes()
		uc := New(td.dir, content.New(), td.cfRepo, td.fRepo, td.txRepo, td.idGen, rand.New(rand.NewPCG(1, 2)))

		err := uc.Set(testCtx, testKey, bytes.NewReader(src))
		if err != nil {
			if strings.Contains(err.Error(), "already closed") {
				t.Fatalf("roots offered as %v: Set failed with %q although root C reports more free space and has room", perm, err)
			}
			t.Fatalf("roots offered as %v: %v", perm, err)
		}
		if len(stored) != 1 || path.Base(stored[0].Parent) != "C" {
			t.Fatalf("roots offered as %v: stored %v", perm, stored)
		}
		got, rerr := os.ReadFile(stored[0].Path())
		if rerr != nil || !bytes.Equal(got, src) {
			t.Fatalf("roots offered as %v: stored bytes differ from the source (%d vs %d bytes, %v)", perm, len(got), len(src), rerr)
		}
	}
}
