package inline_test

// Deterministic native demonstrations of the two C08 known findings (VerifH08b, VerifH08c).
// Everything is the real code (DI container, use cases, repositories, Badger, the file system);
// only the transaction registry handed to the transaction use case is wrapped so that the test
// can hold a Begin between drawing its sequence number and registering itself - the window the
// engine's schedules go through.
// Run: native/demo.sh pkg/inline findings/C08-begin-vs-gc/demo_test.go

import (
	"bytes"
	"context"
	"errors"
	"io"
	"testing"

	"github.com/glebziz/fs_db"
	"github.com/glebziz/fs_db/config"
	"github.com/glebziz/fs_db/internal/di"
	"github.com/glebziz/fs_db/internal/model"
	"github.com/glebziz/fs_db/internal/usecase/transaction"
)

type gatedRegistry struct {
	inner interface {
		Store(ctx context.Context, tx model.Transaction) error
		Delete(ctx context.Context, id string) (model.Transaction, error)
	}
	arrived chan struct{}
	release chan struct{}
	gate    bool
}

func (g *gatedRegistry) Store(ctx context.Context, tx model.Transaction) error {
	if g.gate {
		g.arrived <- struct{}{}
		<-g.release
	}
	return g.inner.Store(ctx, tx)
}
func (g *gatedRegistry) Delete(ctx context.Context, id string) (model.Transaction, error) {
	return g.inner.Delete(ctx, id)
}

func newStack(t *testing.T) (*di.Container, *transaction.UseCase, *gatedRegistry) {
	dir := t.TempDir()
	cfg := config.Config{Storage: config.Storage{DbPath: dir + "/db", MaxDirCount: 1000, RootDirs: []string{dir + "/root"}, GCPeriod: 1 << 40},
		WPool: config.WPool{NumWorkers: 1, SendDuration: 1000000}}
	c := di.New(cfg)
	ctx := context.Background()
	c.Pool().Run(ctx)
	if _, err := c.Core().Load(ctx); err != nil {
		t.Fatal(err)
	}
	t.Cleanup(func() { c.Pool().Stop(); c.Badger().Close() })
	g := &gatedRegistry{inner: c.TransactionRepo(), arrived: make(chan struct{}), release: make(chan struct{})}
	return c, transaction.New(c.Cleaner(), c.Core(), g, c.Gen()), g
}

func get(c *di.Container, ctx context.Context, key string) (string, error) {
	r, err := c.Store().Get(ctx, key)
	if err != nil {
		return "", err
	}
	defer r.Close()
	b, err := io.ReadAll(r)
	return string(b), err
}

// Begin racing with an overwrite and the collector: the snapshot's version is collected before
// the transaction registers, and the key - which had a value throughout - reads as not found.
func TestDemoC08BeginVsGC(t *testing.T) {
	c, txuc, g := newStack(t)
	ctx := context.Background()
	if err := c.Store().Set(ctx, "k", bytes.NewReader([]byte("v1"))); err != nil {
		t.Fatal(err)
	}
	g.gate = true
	idc := make(chan string)
	go func() {
		id, _ := txuc.Begin(ctx, fs_db.IsoLevelRepeatableRead) // draws its sequence number, then waits at the gate
		idc <- id
	}()
	<-g.arrived
	if err := c.Store().Set(ctx, "k", bytes.NewReader([]byte("v2"))); err != nil {
		t.Fatal(err)
	}
	if err := c.Cleaner().DeleteOld(ctx); err != nil { // no transaction is registered: horizon = now
		t.Fatal(err)
	}
	g.gate = false
	g.release <- struct{}{}
	id := <-idc
	got, err := get(c, model.StoreTxId(ctx, id), "k")
	if err != nil {
		t.Fatalf("snapshot transaction reads key k (which had a value throughout): %v (is ErrNotFound: %v)", err, errors.Is(err, fs_db.ErrNotFound))
	}
	t.Logf("read %q", got)
}

// Two Begins register in the opposite order of their sequence numbers; the collector takes the
// first registered (the younger) as the oldest and removes the version the older one needs.
func TestDemoC08OldestIsNotSmallest(t *testing.T) {
	c, txuc, g := newStack(t)
	ctx := context.Background()
	if err := c.Store().Set(ctx, "k", bytes.NewReader([]byte("v1"))); err != nil {
		t.Fatal(err)
	}
	g.gate = true
	idc := make(chan string)
	go func() {
		id, _ := txuc.Begin(ctx, fs_db.IsoLevelRepeatableRead) // older snapshot, held before registering
		idc <- id
	}()
	<-g.arrived
	g.gate = false
	if err := c.Store().Set(ctx, "k", bytes.NewReader([]byte("v2"))); err != nil {
		t.Fatal(err)
	}
	if _, err := txuc.Begin(ctx, fs_db.IsoLevelRepeatableRead); err != nil { // younger snapshot registers first
		t.Fatal(err)
	}
	g.release <- struct{}{}
	older := <-idc
	if err := c.Cleaner().DeleteOld(ctx); err != nil {
		t.Fatal(err)
	}
	if _, err := get(c, model.StoreTxId(ctx, older), "k"); err != nil {
		t.Fatalf("the older snapshot transaction lost its version to the collector: %v", err)
	}
}
