package external_test

// Native demonstration of the C11 defect found by VerifH11d, against a real gRPC server on the
// loop-back interface: an error that arrives in the middle of a download is mapped to the
// package's sentinels by external Get (errors.Is(err, fs_db.ErrUnknown)), but the reader returned
// by external GetReader hands the raw gRPC status error to its caller: no exported sentinel
// matches it, unlike every other error of the client. The download is broken here by cancelling
// the caller's context after the first chunk has been read.
// Run: native/demo.sh pkg/external findings/C11-external-reader-errors/demo_test.go

import (
	"bytes"
	"context"
	"errors"
	"fmt"
	"io"
	"net"
	"testing"
	"time"

	"github.com/glebziz/fs_db"
	"github.com/glebziz/fs_db/config"
	"github.com/glebziz/fs_db/internal/app"
	"github.com/glebziz/fs_db/pkg/external"
)

func TestDemoC11ExternalReaderErrors(t *testing.T) {
	dir := t.TempDir()
	l, err := net.Listen("tcp", "127.0.0.1:0")
	if err != nil {
		t.Fatal(err)
	}
	port := l.Addr().(*net.TCPAddr).Port
	l.Close()
	cfg := config.Config{Port: port, Storage: config.Storage{DbPath: dir + "/db", MaxDirCount: 1000, RootDirs: []string{dir + "/root"}, GCPeriod: time.Hour},
		WPool: config.WPool{NumWorkers: 1, SendDuration: time.Millisecond}}
	ctx, cancel := context.WithCancel(context.Background())
	a, err := app.New(ctx, cfg)
	if err != nil {
		t.Fatal(err)
	}
	done := make(chan struct{})
	go func() { a.Run(ctx); close(done) }()
	defer func() { cancel(); <-done; a.Stop() }()
	time.Sleep(200 * time.Millisecond)

	d, err := external.Open(ctx, fmt.Sprintf("127.0.0.1:%d", port))
	if err != nil {
		t.Fatal(err)
	}
	big := bytes.Repeat([]byte("0123456789abcdef"), 1<<18) // 4 MiB: far more than the transport buffers
	if err := d.Set(ctx, "k", big); err != nil {
		t.Fatal(err)
	}
	cctx, ccancel := context.WithCancel(ctx)
	r, err := d.GetReader(cctx, "k")
	if err != nil {
		t.Fatal(err)
	}
	buf := make([]byte, 1024)
	if _, err := io.ReadFull(r, buf); err != nil {
		t.Fatal(err)
	}
	ccancel()
	_, rerr := io.Copy(io.Discard, r)
	if rerr == nil {
		t.Fatal("the cancelled download reported no error")
	}
	if !errors.Is(rerr, fs_db.ErrUnknown) {
		t.Fatalf("GetReader: the error of a download broken half-way matches no exported sentinel (errors.Is(err, fs_db.ErrUnknown) = false): %v", rerr)
	}
}
