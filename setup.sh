#!/bin/sh
# builds the engine offline from the module cache
cd "$(dirname "$0")/engine" || exit 2
export GOFLAGS=-mod=mod GOPROXY=off GOSUMDB=off GOTOOLCHAIN=local
mkdir -p ../bin ../evidence ../replays
go build -o ../bin/gosym . || exit 1
echo "gosym built"
