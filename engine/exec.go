package main

import (
	"fmt"
	"go/constant"
	"go/token"
	"go/types"

	"golang.org/x/tools/go/ssa"
)

func constantString(c *ssa.Const) string { return constant.StringVal(c.Value) }

func (m *Machine) exec(th *Thread, fr *Frame) {
	ins := fr.block.Instrs[fr.pc]
	ts := m.ts
	switch i := ins.(type) {
	case *ssa.DebugRef:
		fr.pc++
	case *ssa.Alloc:
		c := &Cell{v: m.zero(i.Type().(*types.Pointer).Elem())}
		if m.raceOn && fr.info.monitor {
			markMon(c, "")
		}
		m.setReg(fr, i, c)
		fr.pc++
	case *ssa.BinOp:
		m.setReg(fr, i, m.binop(i.Op, i.X.Type(), m.operand(fr, i.X), m.operand(fr, i.Y), i.Y.Type()))
		fr.pc++
	case *ssa.UnOp:
		x := m.operand(fr, i.X)
		switch i.Op {
		case token.MUL:
			m.setReg(fr, i, m.load(th, x))
			fr.pc++
		case token.ARROW:
			if !m.schedGate(th, "recv") {
				return
			}
			v, ok, done := m.chanRecv(th, x.(*ChanV))
			if !done {
				return
			}
			th.passedSched = false
			if i.CommaOk {
				m.setReg(fr, i, TupleV{v, ts.Bool(ok)})
			} else {
				m.setReg(fr, i, v)
			}
			fr.pc++
		case token.NOT:
			m.setReg(fr, i, ts.Not(x.(*Term)))
			fr.pc++
		case token.SUB:
			if f, ok := x.(FloatV); ok {
				m.setReg(fr, i, -f)
			} else {
				m.setReg(fr, i, ts.Un(OpNeg, x.(*Term)))
			}
			fr.pc++
		case token.XOR:
			m.setReg(fr, i, ts.Un(OpBNot, x.(*Term)))
			fr.pc++
		default:
			m.unsupported("unop " + i.Op.String())
		}
	case *ssa.Store:
		// `return x, f()` with named results compiles to: t = *x; r = f(); *x = t; *err = r.
		// gc reads x after the call (see the Return case): storing the stale load back would
		// undo what f assigned through a closure, so that store is skipped.
		if ld, ok := i.Val.(*ssa.UnOp); ok && ld.Op == token.MUL && ld.X == i.Addr && ld.Block() == fr.block && callBetween(fr.block, ld, i) {
			fr.pc++
			return
		}
		m.store(th, m.operand(fr, i.Addr), m.operand(fr, i.Val))
		fr.pc++
	case *ssa.FieldAddr:
		p := m.operand(fr, i.X).(*Cell)
		if p == nil {
			m.goPanic("invalid memory address or nil pointer dereference")
		}
		m.setReg(fr, i, p.v.(StructV).f[i.Field])
		fr.pc++
	case *ssa.Field:
		m.setReg(fr, i, m.operand(fr, i.X).(StructV).f[i.Field].v)
		fr.pc++
	case *ssa.IndexAddr:
		var cells []*Cell
		switch x := m.operand(fr, i.X).(type) {
		case *Cell:
			if x == nil {
				m.goPanic("invalid memory address or nil pointer dereference")
			}
			cells = x.v.(ArrayV).e
		case SliceV:
			cells = x.cells
		default:
			m.unsupported(fmt.Sprintf("IndexAddr on %T", x))
		}
		idx := m.operand(fr, i.Index).(*Term)
		idx = m.toIndex(idx, i.Index.Type())
		if idx.op == OpConst {
			k := int64(idx.val)
			if k < 0 || k >= int64(len(cells)) {
				m.goPanic(fmt.Sprintf("index out of range [%d] with length %d", k, len(cells)))
			}
			m.setReg(fr, i, cells[k])
		} else {
			m.boundsObligation(idx, len(cells))
			m.setReg(fr, i, &SymPtr{cells, idx})
		}
		fr.pc++
	case *ssa.Index:
		x := m.operand(fr, i.X)
		idx := m.toIndex(m.operand(fr, i.Index).(*Term), i.Index.Type())
		switch a := x.(type) {
		case ArrayV:
			m.setReg(fr, i, m.indexCells(a.e, idx))
		case string, *SymStr:
			m.setReg(fr, i, m.indexString(a, idx))
		default:
			m.unsupported(fmt.Sprintf("Index on %T", x))
		}
		fr.pc++
	case *ssa.Lookup:
		x := m.operand(fr, i.X)
		switch a := x.(type) {
		case string, *SymStr:
			idx := m.toIndex(m.operand(fr, i.Index).(*Term), i.Index.Type())
			m.setReg(fr, i, m.indexString(a, idx))
		case *MapV:
			if a != nil && a.sh != nil {
				m.raceAccess(th, a.sh, false)
			}
			k := m.hashKey(m.operand(fr, i.Index))
			v, ok := a.get(k)
			if !ok {
				v = m.zero(i.X.Type().Underlying().(*types.Map).Elem())
			}
			v = copyValue(v)
			if i.CommaOk {
				m.setReg(fr, i, TupleV{v, ts.Bool(ok)})
			} else {
				m.setReg(fr, i, v)
			}
		default:
			m.unsupported(fmt.Sprintf("Lookup on %T", x))
		}
		fr.pc++
	case *ssa.MapUpdate:
		mp := m.operand(fr, i.Map).(*MapV)
		if mp == nil {
			m.goPanic("assignment to entry in nil map")
		}
		if mp.sh != nil {
			m.raceAccess(th, mp.sh, true)
		}
		kv := m.operand(fr, i.Key)
		mp.set(m.hashKey(kv), kv, copyValue(m.operand(fr, i.Value)))
		fr.pc++
	case *ssa.Slice:
		m.setReg(fr, i, m.sliceOp(fr, i))
		fr.pc++
	case *ssa.MakeSlice:
		ln := m.concreteInt(m.operand(fr, i.Len), "make len")
		cp := m.concreteInt(m.operand(fr, i.Cap), "make cap")
		if ln < 0 || cp < ln {
			m.goPanic("makeslice: len out of range")
		}
		et := i.Type().Underlying().(*types.Slice).Elem()
		cells := m.newCells(et, cp)
		if m.raceOn && fr.info.monitor {
			for _, c := range cells {
				markMon(c, "")
			}
		}
		m.setReg(fr, i, SliceV{cells: cells[:ln], nonnil: true})
		fr.pc++
	case *ssa.MakeMap:
		mt := i.Type().Underlying().(*types.Map)
		nm := m.newMap(mt.Key(), mt.Elem())
		if m.raceOn && fr.info.monitor {
			nm.sh = &Cell{mon: true}
		}
		m.setReg(fr, i, nm)
		fr.pc++
	case *ssa.MakeChan:
		sz := m.concreteInt(m.operand(fr, i.Size), "chan size")
		m.setReg(fr, i, &ChanV{cap: sz, id: m.nextID(), elem: i.Type().Underlying().(*types.Chan).Elem()})
		fr.pc++
	case *ssa.MakeClosure:
		fn := i.Fn.(*ssa.Function)
		binds := make([]Value, len(i.Bindings))
		for k, b := range i.Bindings {
			binds[k] = m.operand(fr, b)
		}
		m.setReg(fr, i, &Closure{fn: fn, binds: binds})
		fr.pc++
	case *ssa.MakeInterface:
		m.setReg(fr, i, IfaceV{t: i.X.Type(), v: m.operand(fr, i.X)})
		fr.pc++
	case *ssa.ChangeInterface:
		m.setReg(fr, i, m.operand(fr, i.X))
		fr.pc++
	case *ssa.ChangeType:
		m.setReg(fr, i, m.operand(fr, i.X))
		fr.pc++
	case *ssa.Convert:
		m.setReg(fr, i, m.convert(m.operand(fr, i.X), i.X.Type(), i.Type()))
		fr.pc++
	case *ssa.MultiConvert:
		m.setReg(fr, i, m.convert(m.operand(fr, i.X), i.X.Type(), i.Type()))
		fr.pc++
	case *ssa.SliceToArrayPointer:
		s := m.operand(fr, i.X).(SliceV)
		n := int(i.Type().Underlying().(*types.Pointer).Elem().Underlying().(*types.Array).Len())
		if len(s.cells) < n {
			m.goPanic("cannot convert slice to array pointer: length too short")
		}
		if s.isNil() {
			m.setReg(fr, i, (*Cell)(nil))
		} else {
			m.setReg(fr, i, &Cell{v: ArrayV{s.cells[:n:n]}})
		}
		fr.pc++
	case *ssa.TypeAssert:
		m.setReg(fr, i, m.typeAssert(i, m.operand(fr, i.X)))
		fr.pc++
	case *ssa.Extract:
		m.setReg(fr, i, m.operand(fr, i.Tuple).(TupleV)[i.Index])
		fr.pc++
	case *ssa.Phi:
		// parallel evaluation of all phis at block head
		blk := fr.block
		var vals []Value
		n := 0
		for n < len(blk.Instrs) {
			ph, ok := blk.Instrs[n].(*ssa.Phi)
			if !ok {
				break
			}
			var v Value
			found := false
			for k, pred := range blk.Preds {
				if pred == fr.prev {
					v = m.operand(fr, ph.Edges[k])
					found = true
					break
				}
			}
			if !found {
				m.unsupported("phi without matching predecessor")
			}
			vals = append(vals, v)
			n++
		}
		for k := 0; k < n; k++ {
			m.setReg(fr, blk.Instrs[k].(*ssa.Phi), vals[k])
		}
		fr.pc = n
	case *ssa.Jump:
		fr.prev = fr.block
		fr.block = fr.block.Succs[0]
		fr.pc = 0
	case *ssa.If:
		c := m.operand(fr, i.Cond).(*Term)
		fr.prev = fr.block
		if m.branch(c) {
			fr.block = fr.block.Succs[0]
		} else {
			fr.block = fr.block.Succs[1]
		}
		fr.pc = 0
	case *ssa.Return:
		vals := make([]Value, len(i.Results))
		for k, r := range i.Results {
			vals[k] = m.operand(fr, r)
			// Evaluation order: `return x, f()` where f assigns x through a closure. go/ssa loads
			// x before the call, the gc compiler (whose binary is what runs) after it. Follow gc:
			// a result that is a load of a local variable made earlier in this block, with a
			// call in between, is re-loaded here.
			if ld, ok := r.(*ssa.UnOp); ok && ld.Op == token.MUL && ld.Block() == fr.block && len(i.Results) > 1 {
				switch ld.X.(type) {
				case *ssa.Alloc, *ssa.FreeVar:
					seenLoad, callBetween := false, false
					for _, ins2 := range fr.block.Instrs {
						if ins2 == ssa.Instruction(ld) {
							seenLoad = true
							continue
						}
						if seenLoad {
							if _, isCall := ins2.(*ssa.Call); isCall {
								callBetween = true
								break
							}
						}
					}
					if callBetween {
						vals[k] = m.load(th, m.operand(fr, ld.X))
					}
				}
			}
		}
		m.doReturn(th, resultsValue(vals))
	case *ssa.RunDefers:
		if len(fr.defers) > 0 {
			d := fr.defers[len(fr.defers)-1]
			fr.defers = fr.defers[:len(fr.defers)-1]
			m.invokeDeferred(th, fr, d)
			return
		}
		fr.pc++
	case *ssa.Panic:
		fr.pc++
		m.raise(th, m.operand(fr, i.X))
	case *ssa.Defer:
		tgt, args := m.resolveCall(fr, &i.Call)
		fr.defers = append(fr.defers, &deferred{target: tgt, args: args})
		fr.pc++
	case *ssa.Go:
		tgt, args := m.resolveCall(fr, &i.Call)
		if !m.schedGate(th, "go") {
			return
		}
		th.passedSched = false
		fr.pc++
		m.spawn(th, tgt, args)
	case *ssa.Call:
		m.execCall(th, fr, i)
	case *ssa.Range:
		x := m.operand(fr, i.X)
		switch a := x.(type) {
		case *MapV:
			it := &mapIter{mp: a}
			if a != nil {
				if a.sh != nil {
					m.raceAccess(th, a.sh, false)
				}
				it.keys = m.orderKeys(a)
			}
			m.setReg(fr, i, it)
		case string:
			m.setReg(fr, i, &mapIter{isS: true, str: a})
		default:
			m.unsupported(fmt.Sprintf("range over %T", x))
		}
		fr.pc++
	case *ssa.Next:
		it := m.operand(fr, i.Iter).(*mapIter)
		if it.isS {
			if it.pos >= len(it.str) {
				m.setReg(fr, i, TupleV{ts.False, ts.Const(64, 0), ts.Const(32, 0)})
			} else {
				r, sz := decodeRune(it.str[it.pos:])
				m.setReg(fr, i, TupleV{ts.True, ts.Const(64, uint64(it.pos)), ts.Const(32, uint64(r))})
				it.pos += sz
			}
			fr.pc++
			return
		}
		for {
			if it.pos >= len(it.keys) {
				tt := i.Type().(*types.Tuple)
				m.setReg(fr, i, TupleV{ts.False, m.zero(tt.At(1).Type()), m.zero(tt.At(2).Type())})
				break
			}
			k := it.keys[it.pos]
			it.pos++
			if e, ok := it.mp.m[k]; ok {
				m.setReg(fr, i, TupleV{ts.True, e.k, copyValue(e.v)})
				break
			}
		}
		fr.pc++
	case *ssa.Send:
		if !m.schedGate(th, "send") {
			return
		}
		if !m.chanSend(th, m.operand(fr, i.Chan).(*ChanV), m.operand(fr, i.X)) {
			return
		}
		th.passedSched = false
		fr.pc++
	case *ssa.Select:
		m.execSelect(th, fr, i)
	default:
		m.unsupported(fmt.Sprintf("instruction %T", ins))
	}
}

// callBetween reports whether a call instruction lies between from and to in block b.
func callBetween(b *ssa.BasicBlock, from, to ssa.Instruction) bool {
	seen := false
	for _, ins := range b.Instrs {
		if ins == from {
			seen = true
			continue
		}
		if ins == to {
			return false
		}
		if seen {
			if _, isCall := ins.(*ssa.Call); isCall {
				return true
			}
		}
	}
	return false
}

func decodeRune(s string) (rune, int) {
	for i, r := range s {
		_ = i
		n := len(string(r))
		if r == 0xFFFD {
			n = 1
		}
		return r, n
	}
	return 0, 0
}

func (m *Machine) newCells(et types.Type, n int) []*Cell {
	cells := make([]*Cell, n)
	if w, _, ok := intWidth(et); ok {
		z := m.ts.Const(w, 0)
		for k := range cells {
			cells[k] = &Cell{v: z}
		}
	} else {
		for k := range cells {
			cells[k] = &Cell{v: m.zero(et)}
		}
	}
	return cells
}

func (m *Machine) concreteInt(v Value, what string) int {
	t := v.(*Term)
	if t.op != OpConst {
		m.unsupported("symbolic " + what)
	}
	return int(t.Int64())
}

// toIndex widens an index to 64 bits according to its static type.
func (m *Machine) toIndex(idx *Term, t types.Type) *Term {
	if idx.w == 64 {
		return idx
	}
	_, signed, _ := intWidth(t)
	if signed {
		return m.ts.Sext(idx, 64)
	}
	return m.ts.Zext(idx, 64)
}

func (m *Machine) boundsObligation(idx *Term, n int) {
	ok := m.ts.Bin(OpUlt, idx, m.ts.Const(64, uint64(n)))
	m.obligation(ok, "panic", "index-out-of-range", fmt.Sprintf("index out of range (symbolic index, length %d)", n))
	m.addPC(ok)
}

func (m *Machine) indexCells(cells []*Cell, idx *Term) Value {
	if idx.op == OpConst {
		k := int64(idx.val)
		if k < 0 || k >= int64(len(cells)) {
			m.goPanic(fmt.Sprintf("index out of range [%d] with length %d", k, len(cells)))
		}
		return cells[k].v
	}
	m.boundsObligation(idx, len(cells))
	return m.iteChain(cells, idx)
}

func (m *Machine) iteChain(cells []*Cell, idx *Term) Value {
	if len(cells) == 0 {
		m.unsupported("symbolic index into empty array")
	}
	r, ok := cells[len(cells)-1].v.(*Term)
	if !ok {
		m.unsupported("symbolic index into non-scalar array")
	}
	if idx.op == OpIte && idx.cl {
		// the index is a finite case split over constants: look each case up directly
		allConst := true
		for _, c := range cells {
			if t, ok := c.v.(*Term); !ok || t.op != OpConst {
				allConst = false
				break
			}
		}
		if allConst {
			return m.ts.mapLeaves(idx, func(l *Term) *Term {
				if l.val < uint64(len(cells)) {
					return cells[l.val].v.(*Term)
				}
				return cells[0].v.(*Term)
			}, map[*Term]*Term{})
		}
	}
	for k := len(cells) - 2; k >= 0; k-- {
		r = m.ts.Ite(m.ts.Eq(idx, m.ts.Const(64, uint64(k))), cells[k].v.(*Term), r)
	}
	return r
}

func (m *Machine) indexString(s Value, idx *Term) Value {
	n := strLen(s)
	if idx.op == OpConst {
		k := int64(idx.val)
		if k < 0 || k >= int64(n) {
			m.goPanic(fmt.Sprintf("index out of range [%d] with length %d", k, n))
		}
		switch a := s.(type) {
		case string:
			return m.ts.Const(8, uint64(a[k]))
		case *SymStr:
			return a.b[k]
		}
	}
	m.boundsObligation(idx, n)
	sym := m.toSym(s)
	r := sym.b[n-1]
	for k := n - 2; k >= 0; k-- {
		r = m.ts.Ite(m.ts.Eq(idx, m.ts.Const(64, uint64(k))), sym.b[k], r)
	}
	return r
}

func (m *Machine) load(th *Thread, p Value) Value {
	switch x := p.(type) {
	case *Cell:
		if x == nil {
			m.goPanic("invalid memory address or nil pointer dereference")
		}
		if x.mon {
			m.raceAccessDeep(th, x, false)
		}
		return copyValue(x.v)
	case *SymPtr:
		return m.iteChain(x.cells, x.idx)
	}
	m.unsupported(fmt.Sprintf("load through %T", p))
	return nil
}

func (m *Machine) store(th *Thread, p Value, v Value) {
	switch x := p.(type) {
	case *Cell:
		if x == nil {
			m.goPanic("invalid memory address or nil pointer dereference")
		}
		if x.mon {
			m.raceAccessDeep(th, x, true)
		}
		m.storeCell(x, v)
		return
	case *SymPtr:
		val := v.(*Term)
		for k, c := range x.cells {
			c.v = m.ts.Ite(m.ts.Eq(x.idx, m.ts.Const(64, uint64(k))), val, c.v.(*Term))
		}
		return
	}
	m.unsupported(fmt.Sprintf("store through %T", p))
}

func (m *Machine) sliceOp(fr *Frame, i *ssa.Slice) Value {
	x := m.operand(fr, i.X)
	get := func(v ssa.Value, def int) int {
		if v == nil {
			return def
		}
		return m.concreteInt(m.operand(fr, v), "slice bound")
	}
	switch a := x.(type) {
	case string:
		lo, hi := get(i.Low, 0), get(i.High, len(a))
		if lo < 0 || hi > len(a) || lo > hi {
			m.goPanic(fmt.Sprintf("slice bounds out of range [%d:%d] with length %d", lo, hi, len(a)))
		}
		return a[lo:hi]
	case *SymStr:
		lo, hi := get(i.Low, 0), get(i.High, len(a.b))
		if lo < 0 || hi > len(a.b) || lo > hi {
			m.goPanic(fmt.Sprintf("slice bounds out of range [%d:%d] with length %d", lo, hi, len(a.b)))
		}
		return normStr(m, &SymStr{a.b[lo:hi]})
	case SliceV:
		lo, hi := get(i.Low, 0), get(i.High, len(a.cells))
		mx := get(i.Max, cap(a.cells))
		if lo < 0 || hi > cap(a.cells) || lo > hi || mx > cap(a.cells) || hi > mx {
			m.goPanic(fmt.Sprintf("slice bounds out of range [%d:%d:%d] with capacity %d", lo, hi, mx, cap(a.cells)))
		}
		if a.isNil() {
			return SliceV{}
		}
		return SliceV{cells: a.cells[lo:hi:mx], nonnil: true}
	case *Cell:
		if a == nil {
			m.goPanic("slice of nil array pointer")
		}
		cells := a.v.(ArrayV).e
		lo, hi := get(i.Low, 0), get(i.High, len(cells))
		mx := get(i.Max, len(cells))
		if lo < 0 || hi > len(cells) || lo > hi || mx > len(cells) || hi > mx {
			m.goPanic(fmt.Sprintf("slice bounds out of range [%d:%d:%d] with length %d", lo, hi, mx, len(cells)))
		}
		return SliceV{cells: cells[lo:hi:mx], nonnil: true}
	}
	m.unsupported(fmt.Sprintf("slice of %T", x))
	return nil
}

func (m *Machine) typeAssert(i *ssa.TypeAssert, x Value) Value {
	iv, ok := x.(IfaceV)
	if !ok {
		m.unsupported(fmt.Sprintf("type assert on %T", x))
	}
	holds := false
	if iv.t != nil {
		if it, isI := i.AssertedType.Underlying().(*types.Interface); isI {
			holds = types.Implements(iv.t, it)
		} else {
			holds = types.Identical(iv.t, i.AssertedType)
		}
	}
	var res Value
	if holds {
		if _, isI := i.AssertedType.Underlying().(*types.Interface); isI {
			res = iv
		} else {
			res = iv.v
		}
	} else {
		res = m.zero(i.AssertedType)
	}
	if i.CommaOk {
		return TupleV{res, m.ts.Bool(holds)}
	}
	if !holds {
		desc := "nil"
		if iv.t != nil {
			desc = iv.t.String()
		}
		m.goPanic("interface conversion: interface is " + desc + ", not " + i.AssertedType.String())
	}
	return res
}

func (m *Machine) resolveCall(fr *Frame, c *ssa.CallCommon) (callTarget, []Value) {
	var args []Value
	var tgt callTarget
	if c.IsInvoke() {
		recv, ok := m.operand(fr, c.Value).(IfaceV)
		if !ok {
			m.unsupported("invoke on non-interface")
		}
		if recv.t == nil {
			m.goPanic("invalid memory address or nil pointer dereference (method call on nil interface)")
		}
		fn := m.p.prog.LookupMethod(recv.t, c.Method.Pkg(), c.Method.Name())
		if fn == nil {
			m.unsupported("method not found: " + recv.t.String() + "." + c.Method.Name())
		}
		tgt = callTarget{fn: fn}
		args = append(args, recv.v)
	} else {
		tgt = m.targetOf(m.operand(fr, c.Value))
	}
	for _, a := range c.Args {
		args = append(args, m.operand(fr, a))
	}
	return tgt, args
}

func (m *Machine) execCall(th *Thread, fr *Frame, i *ssa.Call) {
	tgt, args := m.resolveCall(fr, &i.Call)
	slot := fr.info.idx[i]
	fr.pc++
	if !m.invoke(th, tgt, args, slot, fr) {
		fr.pc-- // blocked: retry when rescheduled
		return
	}
	th.passedSched = false
}

// ---------- binary operators ----------

func (m *Machine) binop(op token.Token, xt types.Type, x, y Value, yt types.Type) Value {
	ts := m.ts
	switch op {
	case token.EQL:
		return m.equal(x, y)
	case token.NEQ:
		return ts.Not(m.equal(x, y))
	}
	switch a := x.(type) {
	case *Term:
		b := y.(*Term)
		w, signed, _ := intWidth(xt)
		if w == 0 {
			switch op {
			case token.AND, token.LAND:
				return ts.And(a, b)
			case token.OR, token.LOR:
				return ts.Or(a, b)
			case token.XOR:
				return ts.Not(ts.Eq(a, b))
			}
			m.unsupported("bool binop " + op.String())
		}
		switch op {
		case token.ADD:
			return ts.Bin(OpAdd, a, b)
		case token.SUB:
			return ts.Bin(OpSub, a, b)
		case token.MUL:
			return ts.Bin(OpMul, a, b)
		case token.QUO, token.REM:
			nz := ts.Not(ts.Eq(b, ts.Const(w, 0)))
			if !nz.IsTrue() {
				m.obligation(nz, "panic", "division-by-zero", "integer divide by zero")
				m.addPC(nz)
			}
			if op == token.QUO {
				if signed {
					return ts.Bin(OpSDiv, a, b)
				}
				return ts.Bin(OpUDiv, a, b)
			}
			if signed {
				return ts.Bin(OpSRem, a, b)
			}
			return ts.Bin(OpURem, a, b)
		case token.AND:
			return ts.Bin(OpBAnd, a, b)
		case token.OR:
			return ts.Bin(OpBOr, a, b)
		case token.XOR:
			return ts.Bin(OpBXor, a, b)
		case token.AND_NOT:
			return ts.Bin(OpBAnd, a, ts.Un(OpBNot, b))
		case token.SHL, token.SHR:
			return m.shift(op, a, b, signed, yt)
		case token.LSS:
			if signed {
				return ts.Bin(OpSlt, a, b)
			}
			return ts.Bin(OpUlt, a, b)
		case token.LEQ:
			if signed {
				return ts.Bin(OpSle, a, b)
			}
			return ts.Bin(OpUle, a, b)
		case token.GTR:
			if signed {
				return ts.Bin(OpSlt, b, a)
			}
			return ts.Bin(OpUlt, b, a)
		case token.GEQ:
			if signed {
				return ts.Bin(OpSle, b, a)
			}
			return ts.Bin(OpUle, b, a)
		}
	case string, *SymStr:
		if op == token.ADD {
			sa, oka := x.(string)
			sb, okb := y.(string)
			if oka && okb {
				return sa + sb
			}
			r := &SymStr{append(append([]*Term{}, m.toSym(x).b...), m.toSym(y).b...)}
			return normStr(m, r)
		}
		sa, sb := m.mustStr(x), m.mustStr(y)
		switch op {
		case token.LSS:
			return ts.Bool(sa < sb)
		case token.LEQ:
			return ts.Bool(sa <= sb)
		case token.GTR:
			return ts.Bool(sa > sb)
		case token.GEQ:
			return ts.Bool(sa >= sb)
		}
	case FloatV:
		b := y.(FloatV)
		switch op {
		case token.ADD:
			return a + b
		case token.SUB:
			return a - b
		case token.MUL:
			return a * b
		case token.QUO:
			return a / b
		case token.LSS:
			return ts.Bool(a < b)
		case token.LEQ:
			return ts.Bool(a <= b)
		case token.GTR:
			return ts.Bool(a > b)
		case token.GEQ:
			return ts.Bool(a >= b)
		}
	}
	m.unsupported(fmt.Sprintf("binop %s on %T", op, x))
	return nil
}

func (m *Machine) shift(op token.Token, a, b *Term, signed bool, yt types.Type) *Term {
	ts := m.ts
	w := a.w
	_, ysigned, _ := intWidth(yt)
	if ysigned {
		neg := ts.Bin(OpSlt, b, ts.Const(b.w, 0))
		if !neg.IsFalse() {
			m.obligation(ts.Not(neg), "panic", "negative-shift", "negative shift amount")
			m.addPC(ts.Not(neg))
		}
	}
	var tooBig *Term = ts.False
	var amt *Term
	if b.w > w {
		tooBig = ts.Bin(OpUle, ts.Const(b.w, uint64(w)), b)
		amt = ts.Extract(b, w-1, 0)
	} else {
		amt = ts.Zext(b, w)
	}
	var r, over *Term
	switch {
	case op == token.SHL:
		r = ts.Bin(OpShl, a, amt)
		over = ts.Const(w, 0)
	case signed:
		r = ts.Bin(OpAshr, a, amt)
		over = ts.Bin(OpAshr, a, ts.Const(w, uint64(w-1)))
	default:
		r = ts.Bin(OpLshr, a, amt)
		over = ts.Const(w, 0)
	}
	return ts.Ite(tooBig, over, r)
}

// ---------- conversions ----------

func (m *Machine) convert(x Value, from, to types.Type) Value {
	ts := m.ts
	fu, tu := from.Underlying(), to.Underlying()
	if tw, _, ok := intWidth(tu); ok && tw > 0 {
		switch a := x.(type) {
		case *Term:
			_, fsigned, _ := intWidth(fu)
			if a.w == tw {
				return a
			}
			if a.w > tw {
				return ts.Extract(a, tw-1, 0)
			}
			if fsigned {
				return ts.Sext(a, tw)
			}
			return ts.Zext(a, tw)
		case FloatV:
			return ts.Const(tw, uint64(int64(a)))
		case *Cell:
			// unsafe.Pointer -> uintptr
			m.unsupported("pointer to integer conversion")
		}
	}
	if isFloat(tu) {
		switch a := x.(type) {
		case FloatV:
			return a
		case *Term:
			if a.op != OpConst {
				m.unsupported("symbolic int to float")
			}
			_, fsigned, _ := intWidth(fu)
			if fsigned {
				return FloatV(float64(a.Int64()))
			}
			return FloatV(float64(a.val))
		}
	}
	if isString(tu) {
		switch a := x.(type) {
		case string, *SymStr:
			return a
		case *Term:
			if a.op != OpConst {
				m.unsupported("symbolic rune to string")
			}
			return string(rune(a.Int64()))
		case SliceV:
			et := fu.(*types.Slice).Elem()
			if w, _, _ := intWidth(et); w == 8 {
				b := make([]*Term, len(a.cells))
				for k, c := range a.cells {
					b[k] = c.v.(*Term)
				}
				return normStr(m, &SymStr{b})
			}
			rs := make([]rune, len(a.cells))
			for k, c := range a.cells {
				rs[k] = rune(m.concreteInt(c.v, "rune"))
			}
			return string(rs)
		}
	}
	if st, ok := tu.(*types.Slice); ok {
		switch a := x.(type) {
		case string, *SymStr:
			if w, _, _ := intWidth(st.Elem()); w == 8 {
				sym := m.toSym(a)
				cells := make([]*Cell, len(sym.b))
				for k, b := range sym.b {
					cells[k] = &Cell{v: b}
				}
				return SliceV{cells: cells, nonnil: true}
			}
			rs := []rune(m.mustStr(a))
			cells := make([]*Cell, len(rs))
			for k, r := range rs {
				cells[k] = &Cell{v: ts.Const(32, uint64(r))}
			}
			return SliceV{cells: cells, nonnil: true}
		case SliceV:
			return a
		}
	}
	if _, ok := tu.(*types.Pointer); ok {
		return x
	}
	if b, ok := tu.(*types.Basic); ok && b.Kind() == types.UnsafePointer {
		return x
	}
	// slice to array (Go 1.20)
	if at, ok := tu.(*types.Array); ok {
		if s, ok := x.(SliceV); ok {
			n := int(at.Len())
			if len(s.cells) < n {
				m.goPanic("cannot convert slice to array: length too short")
			}
			e := make([]*Cell, n)
			for k := 0; k < n; k++ {
				e[k] = &Cell{v: copyValue(s.cells[k].v)}
			}
			return ArrayV{e}
		}
	}
	m.unsupported(fmt.Sprintf("convert %s -> %s (%T)", from, to, x))
	return nil
}
