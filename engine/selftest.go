package main

import (
	"flag"
	"fmt"
	"go/types"
	"sort"
	"strings"

	"golang.org/x/tools/go/ssa"
)

// gosym selftest: the repository's own unit tests (those that need neither mocks nor I/O) are
// interpreted by the engine in concrete mode with testing.T and testify/require as intrinsics.
// Every assertion of those tests must hold in the interpreter exactly as it does natively - a
// validation of the SSA interpreter (values, memory, generics, closures, defers, range-over-func,
// maps, slices) independent of any harness (DESIGN 2.9).

type selfState struct {
	failures []string
	asserts  int
}

func init() {
	tT := "(*testing.T)."
	tC := "(*testing.common)."
	noop := intrNoop
	for _, n := range []string{"Parallel", "Helper", "Cleanup", "Log", "Logf", "Setenv"} {
		reg(tT+n, noop)
		reg(tC+n, noop)
	}
	reg(tT+"Run", func(m *Machine, th *Thread, fn *ssa.Function, a []Value) (Value, bool) {
		m.callSync(th, a[2], []Value{a[0]})
		return m.ts.True, true
	})
	fail := func(m *Machine, what string) {
		if m.self != nil {
			m.self.failures = append(m.self.failures, what+" at "+m.where())
		}
	}
	for _, n := range []string{"Fatal", "Fatalf", "Error", "Errorf", "FailNow", "Fail"} {
		n := n
		f := func(m *Machine, th *Thread, fn *ssa.Function, a []Value) (Value, bool) {
			fail(m, "t."+n)
			return nil, true
		}
		reg(tT+n, f)
		reg(tC+n, f)
	}
	req := "github.com/stretchr/testify/require."
	check := func(name string, cond func(m *Machine, th *Thread, a []Value) bool) {
		reg(req+name, func(m *Machine, th *Thread, fn *ssa.Function, a []Value) (Value, bool) {
			if m.self != nil {
				m.self.asserts++
			}
			if !cond(m, th, a) {
				fail(m, "require."+name)
			}
			return nil, true
		})
	}
	isNil := func(v Value) bool {
		iv, ok := v.(IfaceV)
		if !ok {
			return false
		}
		if iv.t == nil {
			return true
		}
		switch x := iv.v.(type) {
		case *Cell:
			return x == nil
		case SliceV:
			return x.isNil()
		case *MapV:
			return x == nil
		case *Closure:
			return x == nil
		case *ChanV:
			return x == nil
		case IfaceV:
			return x.t == nil
		}
		return false
	}
	check("True", func(m *Machine, th *Thread, a []Value) bool { return a[1].(*Term).IsTrue() })
	check("False", func(m *Machine, th *Thread, a []Value) bool { return a[1].(*Term).IsFalse() })
	check("Nil", func(m *Machine, th *Thread, a []Value) bool { return isNil(a[1]) })
	check("NotNil", func(m *Machine, th *Thread, a []Value) bool { return !isNil(a[1]) })
	check("NoError", func(m *Machine, th *Thread, a []Value) bool { return a[1].(IfaceV).t == nil })
	check("Error", func(m *Machine, th *Thread, a []Value) bool { return a[1].(IfaceV).t != nil })
	check("ErrorIs", func(m *Machine, th *Thread, a []Value) bool {
		return m.errorsIs(th, a[1].(IfaceV), a[2].(IfaceV)).IsTrue()
	})
	check("Equal", func(m *Machine, th *Thread, a []Value) bool { return m.deepEqual(a[1], a[2], 0) })
	check("Len", func(m *Machine, th *Thread, a []Value) bool {
		n := m.concreteInt(a[2], "Len")
		iv := a[1].(IfaceV)
		switch x := iv.v.(type) {
		case SliceV:
			return len(x.cells) == n
		case *MapV:
			return x.length() == n
		case string:
			return len(x) == n
		case ArrayV:
			return len(x.e) == n
		}
		return false
	})
	check("Empty", func(m *Machine, th *Thread, a []Value) bool {
		if isNil(a[1]) {
			return true
		}
		iv := a[1].(IfaceV)
		switch x := iv.v.(type) {
		case SliceV:
			return len(x.cells) == 0
		case *MapV:
			return x.length() == 0
		case string:
			return x == ""
		case *Term:
			return x.op == OpConst && x.val == 0
		case StructV:
			return m.deepEqual(IfaceV{iv.t, x}, IfaceV{iv.t, m.zero(iv.t)}, 0)
		case *Cell:
			return x == nil
		}
		return false
	})
	reg("github.com/brianvoe/gofakeit/v6.UUID", func(m *Machine, th *Thread, fn *ssa.Function, a []Value) (Value, bool) {
		m.uuidCount++
		return fmt.Sprintf("00000000-0000-4000-8000-%012d", m.uuidCount), true
	})
}

// deepEqual follows reflect.DeepEqual / testify.ObjectsAreEqual on engine values.
func (m *Machine) deepEqual(x, y Value, depth int) bool {
	if depth > 50 {
		return true
	}
	switch a := x.(type) {
	case IfaceV:
		b, ok := y.(IfaceV)
		if !ok {
			return false
		}
		if a.t == nil || b.t == nil {
			return a.t == nil && b.t == nil
		}
		if !types.Identical(a.t, b.t) {
			return false
		}
		return m.deepEqual(a.v, b.v, depth+1)
	case *Cell:
		b, ok := y.(*Cell)
		if !ok {
			return false
		}
		if a == b {
			return true
		}
		if a == nil || b == nil {
			return false
		}
		return m.deepEqual(a.v, b.v, depth+1)
	case StructV:
		b, ok := y.(StructV)
		if !ok || len(a.f) != len(b.f) {
			return false
		}
		for i := range a.f {
			if !m.deepEqual(a.f[i].v, b.f[i].v, depth+1) {
				return false
			}
		}
		return true
	case ArrayV:
		b, ok := y.(ArrayV)
		if !ok || len(a.e) != len(b.e) {
			return false
		}
		for i := range a.e {
			if !m.deepEqual(a.e[i].v, b.e[i].v, depth+1) {
				return false
			}
		}
		return true
	case SliceV:
		b, ok := y.(SliceV)
		if !ok || len(a.cells) != len(b.cells) || a.isNil() != b.isNil() {
			return false
		}
		for i := range a.cells {
			if !m.deepEqual(a.cells[i].v, b.cells[i].v, depth+1) {
				return false
			}
		}
		return true
	case *MapV:
		b, ok := y.(*MapV)
		if !ok || a.length() != b.length() || (a == nil) != (b == nil) {
			return false
		}
		if a == nil {
			return true
		}
		for k, e := range a.m {
			f, ok := b.m[k]
			if !ok || !m.deepEqual(e.v, f.v, depth+1) {
				return false
			}
		}
		return true
	case *Closure:
		b, ok := y.(*Closure)
		return ok && a == nil && b == nil
	case nil:
		return y == nil
	}
	t := m.equal(x, y)
	return t.IsTrue()
}

func cmdSelftest(args []string) int {
	fs := flag.NewFlagSet("selftest", flag.ExitOnError)
	repo := fs.String("repo", "/repo", "repository")
	verif := fs.String("verif", "/verif", "verif dir")
	pk := fs.String("packages", "./internal/model/core,./internal/repository/file,./internal/adapter/iso_level", "packages whose tests are interpreted")
	run := fs.String("run", "", "only tests whose name contains this")
	verbose := fs.Bool("v", false, "verbose")
	fs.Parse(args)
	r := runSelftest(*repo, *verif, strings.Split(*pk, ","), *run, *verbose, true)
	if r.err != nil {
		fmt.Println("selftest: load:", r.err)
		return 2
	}
	fmt.Printf("selftest: %d test functions interpreted: %d pass, %d fail, %d skipped (unsupported), %d require-assertions evaluated\n", r.pass+r.fail+r.skipped, r.pass, r.fail, r.skipped, r.asserts)
	if r.fail > 0 {
		return 1
	}
	return 0
}

type selftestResult struct {
	pass, fail, skipped, asserts int
	failed                       []string
	err                          error
}

func runSelftest(repo, verif string, pkgs []string, run string, verbose, print bool) selftestResult {
	var res selftestResult
	p, tests, err := loadTests(repo, verif+"/harness", pkgs)
	if err != nil {
		res.err = err
		return res
	}
	runp, verbosep := &run, &verbose
	sort.Slice(tests, func(i, j int) bool { return tests[i].String() < tests[j].String() })
	ex := NewExplorer(p, Config{Workers: 1, SolverMs: 1000, MaxSteps: 200_000_000, Solvers: []string{"cvc5", "z3-new"}, Verbose: *verbosep})
	w := &Worker{ex: ex, ts: NewTermStore(), solver: NewPortfolio(1000, ex.cfg.Solvers)}
	defer w.solver.Close()
	pass, failN, skipped, asserts := 0, 0, 0, 0
	for _, fn := range tests {
		if *runp != "" && !strings.Contains(fn.Name(), *runp) {
			continue
		}
		it := &workItem{harness: fn}
		w.cur = it
		m := w.newMachine(it)
		m.self = &selfState{}
		m.selfTestArg = true
		end := m.run(fn)
		asserts += m.self.asserts
		switch {
		case end.kind == "unsupported" || end.kind == "budget":
			skipped++
			if print {
				fmt.Printf("SKIP %s: %s\n", fn.String(), end.msg)
			}
		case end.kind != "done" || len(m.self.failures) > 0:
			failN++
			res.failed = append(res.failed, fn.String())
			if print {
				fmt.Printf("FAIL %s: %s %v\n", fn.String(), end.kind+" "+end.msg, m.self.failures)
			}
		default:
			pass++
			if *verbosep && print {
				fmt.Printf("ok   %s (%d assertions)\n", fn.String(), m.self.asserts)
			}
		}
	}
	res.pass, res.fail, res.skipped, res.asserts = pass, failN, skipped, asserts
	return res
}
