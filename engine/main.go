package main

import (
	"encoding/json"
	"flag"
	"fmt"
	"go/types"
	"os"
	"os/exec"
	"path/filepath"
	"runtime"
	"sort"
	"strconv"
	"strings"
	"time"

	"golang.org/x/tools/go/packages"
	"golang.org/x/tools/go/ssa"
	"golang.org/x/tools/go/ssa/ssautil"
)

const modPath = "github.com/glebziz/fs_db"

// library packages whose initialisers are interpreted (everything else keeps zero globals)
var initAllow = map[string]bool{
	"io": true, "bytes": true, "context": true, "io/fs": true, "internal/oserror": true,
	"github.com/google/uuid": true, "encoding/hex": true, "errors": false, "syscall": false,
	"unicode/utf8": true, "github.com/glebziz/containers/omap": true, "math/bits": true,
	"google.golang.org/grpc/codes": false,
}

var initDeny = map[string]bool{
	modPath + "/internal/proto": true,
	ndPkg: true,
}

type PropSpec struct {
	Level       string              `json:"level"`
	Technique   string              `json:"technique"`
	Packages    []string            `json:"packages"`
	Harnesses   map[string][]string `json:"harnesses"` // tier -> function names
	Limits      map[string]Limits   `json:"limits"`
	Assumptions []string            `json:"assumptions"`
	Stubs       []string            `json:"stubs"`
	Bounds      map[string]string   `json:"bounds"`
	Explanation string              `json:"explanation"`
	Outside     []string            `json:"outside_claim"`
	Reach       []string            `json:"reach_required"`
	Solvers     []string            `json:"solvers"`
	Native      bool                `json:"native_replay"`
	Race        bool                `json:"race_monitor"`
	OnlyKinds   []string            `json:"only_kinds"`
	Selftest    []string            `json:"selftest_packages"`
}

type Limits struct {
	MaxPaths int   `json:"max_paths"`
	BudgetS  int   `json:"budget_s"`
	SolverMs int   `json:"solver_ms"`
	MaxSteps int64 `json:"max_steps"`
}

func loadProgram(repo, harnessDir string, patterns []string) (*Prog, error) {
	p, _, err := loadProgramTests(repo, harnessDir, patterns, false)
	return p, err
}

// loadTests loads the packages with their tests and returns the Test* functions found.
func loadTests(repo, harnessDir string, patterns []string) (*Prog, []*ssa.Function, error) {
	return loadProgramTests(repo, harnessDir, patterns, true)
}

func loadProgramTests(repo, harnessDir string, patterns []string, withTests bool) (*Prog, []*ssa.Function, error) {
	overlay := map[string][]byte{}
	extra := map[string]bool{}
	err := filepath.Walk(harnessDir, func(p string, info os.FileInfo, err error) error {
		if err != nil || info.IsDir() || !strings.HasSuffix(p, ".go") {
			return err
		}
		if strings.HasSuffix(p, "_test.go") {
			return nil
		}
		rel, _ := filepath.Rel(harnessDir, p)
		data, err := os.ReadFile(p)
		if err != nil {
			return err
		}
		overlay[filepath.Join(repo, rel)] = data
		extra["./"+filepath.Dir(rel)] = true
		return nil
	})
	if err != nil {
		return nil, nil, err
	}
	pats := append([]string{}, patterns...)
	for _, must := range []string{"./internal/verifnd", "./internal/verifenv"} {
		if extra[must] {
			pats = append(pats, must)
		}
	}
	cfg := &packages.Config{
		Mode:       packages.LoadAllSyntax,
		Dir:        repo,
		BuildFlags: []string{"-tags=verif"},
		Overlay:    overlay,
		Tests:      withTests,
		Env:        append(os.Environ(), "GOFLAGS=-mod=mod", "GOPROXY=off", "GOSUMDB=off", "GOTOOLCHAIN=local"),
	}
	pkgs, err := packages.Load(cfg, pats...)
	if err != nil {
		return nil, nil, err
	}
	var errs []string
	packages.Visit(pkgs, nil, func(p *packages.Package) {
		if strings.HasPrefix(p.PkgPath, modPath) {
			for _, e := range p.Errors {
				errs = append(errs, e.Error())
			}
		}
	})
	if len(errs) > 0 {
		return nil, nil, fmt.Errorf("harness does not type-check against the current tree:\n  %s", strings.Join(errs, "\n  "))
	}
	prog, initial := ssautil.AllPackages(pkgs, ssa.InstantiateGenerics|ssa.BareInits)
	prog.Build()
	p := &Prog{prog: prog, pkgs: map[string]*ssa.Package{}, infos: map[*ssa.Function]*fnInfo{}, modPath: modPath}
	for _, sp := range prog.AllPackages() {
		if _, dup := p.pkgs[sp.Pkg.Path()]; !dup {
			p.pkgs[sp.Pkg.Path()] = sp
		}
	}
	var tests []*ssa.Function
	if withTests {
		// the test variant of a package ("p [p.test]") replaces the plain one
		for i, pk := range pkgs {
			if initial[i] == nil || !strings.Contains(pk.ID, "[") {
				continue
			}
			p.pkgs[pk.PkgPath] = initial[i]
			for name, mem := range initial[i].Members {
				if fn, ok := mem.(*ssa.Function); ok && strings.HasPrefix(name, "Test") && fn.Signature.Params().Len() == 1 {
					tests = append(tests, fn)
				}
			}
		}
	}
	// initialisation order: dependencies first
	seen := map[*types.Package]bool{}
	var order []*ssa.Package
	var visit func(tp *types.Package)
	visit = func(tp *types.Package) {
		if seen[tp] {
			return
		}
		seen[tp] = true
		imps := tp.Imports()
		sort.Slice(imps, func(i, j int) bool { return imps[i].Path() < imps[j].Path() })
		for _, imp := range imps {
			visit(imp)
		}
		path := tp.Path()
		want := initAllow[path] || (strings.HasPrefix(path, modPath) && !initDeny[path] && !strings.Contains(path, "/mocks"))
		if want {
			if sp := p.pkgs[path]; sp != nil {
				order = append(order, sp)
			}
		}
	}
	var roots []*types.Package
	for _, sp := range prog.AllPackages() {
		roots = append(roots, sp.Pkg)
	}
	sort.Slice(roots, func(i, j int) bool { return roots[i].Path() < roots[j].Path() })
	for _, r := range roots {
		visit(r)
	}
	p.initPkgs = order
	return p, tests, nil
}

// plantGlobals supplies the few library globals whose packages are not initialised.
func (m *Machine) plantGlobals() {
	osp, fsp := m.p.pkgs["os"], m.p.pkgs["io/fs"]
	if osp != nil && fsp != nil {
		for _, n := range []string{"ErrNotExist", "ErrExist", "ErrPermission", "ErrClosed", "ErrInvalid"} {
			og, fg := osp.Var(n), fsp.Var(n)
			if og != nil && fg != nil {
				m.globalCell(og).v = m.globalCell(fg).v
			}
		}
	}
}

func (p *Prog) findHarness(full string) *ssa.Function {
	return p.lookupFunc(full)
}

type Finding struct {
	Property string `json:"property"`
	Key      string `json:"key"`
	What     string `json:"what"`
	Status   string `json:"status"`
}
type KnownFindings struct {
	Findings []Finding `json:"findings"`
	Fixed    []string  `json:"fixed"`
}

func main() {
	if len(os.Args) < 2 {
		fmt.Println("usage: gosym run|replay ...")
		os.Exit(2)
	}
	switch os.Args[1] {
	case "run":
		os.Exit(cmdRun(os.Args[2:]))
	case "replay":
		os.Exit(cmdReplay(os.Args[2:]))
	case "selftest":
		os.Exit(cmdSelftest(os.Args[2:]))
	default:
		fmt.Println("unknown command")
		os.Exit(2)
	}
}

func cmdRun(args []string) int {
	fs := flag.NewFlagSet("run", flag.ExitOnError)
	repo := fs.String("repo", "/repo", "repository")
	verif := fs.String("verif", "/verif", "verif dir")
	prop := fs.String("property", "", "property id")
	tier := fs.String("tier", "quick", "quick|thorough")
	harn := fs.String("harness", "", "comma separated harness functions (overrides the property spec)")
	pkgsFlag := fs.String("packages", "", "comma separated package patterns")
	workers := fs.Int("workers", runtime.NumCPU(), "workers")
	maxPaths := fs.Int("max-paths", 0, "path limit")
	raceFlag := fs.Bool("race", false, "switch the happens-before race monitor on")
	budget := fs.Int("budget", 0, "time budget in seconds (overrides the property spec)")
	verbose := fs.Bool("v", false, "verbose")
	noEvidence := fs.Bool("no-evidence", false, "do not write evidence")
	solvers := fs.String("solvers", "", "solver order (default: property spec, else cvc5,z3-new)")
	fs.Parse(args)

	seed := int64(0)
	if s := os.Getenv("VERIF_SEED"); s != "" {
		seed, _ = strconv.ParseInt(s, 10, 64)
	}
	start := time.Now()
	specs := map[string]*PropSpec{}
	if data, err := os.ReadFile(filepath.Join(*verif, "harness", "properties.json")); err == nil {
		if err := json.Unmarshal(data, &specs); err != nil {
			fmt.Println("properties.json:", err)
			return 2
		}
	}
	spec := specs[*prop]
	if spec == nil {
		spec = &PropSpec{Level: "other", Harnesses: map[string][]string{}}
	}
	var hnames []string
	if *harn != "" {
		hnames = strings.Split(*harn, ",")
	} else {
		hnames = spec.Harnesses[*tier]
		if len(hnames) == 0 {
			hnames = spec.Harnesses["quick"]
		}
	}
	patterns := spec.Packages
	if *pkgsFlag != "" {
		patterns = strings.Split(*pkgsFlag, ",")
	}
	if len(patterns) == 0 {
		for _, h := range hnames {
			i := strings.LastIndex(h, ".")
			patterns = append(patterns, "./"+strings.TrimPrefix(strings.TrimPrefix(h[:i], modPath), "/"))
		}
	}
	lim := spec.Limits[*tier]
	if *solvers == "" {
		if len(spec.Solvers) > 0 {
			*solvers = strings.Join(spec.Solvers, ",")
		} else {
			*solvers = "cvc5,z3-new"
		}
	}
	cfg := Config{Repo: *repo, Tier: *tier, Seed: seed, Workers: *workers, MaxPaths: lim.MaxPaths, Budget: time.Duration(lim.BudgetS) * time.Second,
		SolverMs: lim.SolverMs, MaxSteps: lim.MaxSteps, Verbose: *verbose, Solvers: strings.Split(*solvers, ",")}
	if *tier == "thorough" {
		cfg.TierN = 1
	}
	cfg.Race = spec.Race || *raceFlag
	if *maxPaths > 0 {
		cfg.MaxPaths = *maxPaths
	}
	if *budget > 0 {
		cfg.Budget = time.Duration(*budget) * time.Second
	}
	if cfg.SolverMs == 0 {
		cfg.SolverMs = 10000
		if cfg.TierN == 1 {
			cfg.SolverMs = 60000
		}
	}
	if cfg.MaxSteps == 0 {
		cfg.MaxSteps = 50_000_000
	}

	ev := &Evidence{PropertyID: *prop, Tier: *tier, Seed: seed, Level: spec.Level, Assumptions: spec.Assumptions}
	if ev.Level == "" {
		ev.Level = "other"
	}
	evPath := filepath.Join(*verif, "evidence", *prop+".json")
	writeEv := func() {
		ev.WallS = time.Since(start).Seconds()
		if *noEvidence || *prop == "" {
			return
		}
		os.MkdirAll(filepath.Dir(evPath), 0o755)
		data, _ := json.MarshalIndent(ev, "", " ")
		os.WriteFile(evPath, data, 0o644)
	}

	p, err := loadProgram(*repo, filepath.Join(*verif, "harness"), patterns)
	if err != nil {
		fmt.Printf("INCONCLUSIVE property=%s reason=%s\n", *prop, strings.ReplaceAll(err.Error(), "\n", " | "))
		ev.Coverage = map[string]any{"explanation": "inconclusive: " + err.Error(), "evaluations": 0, "distinct_nontrivial": 0, "exhaustive": false}
		writeEv()
		return 0
	}
	loadT := time.Since(start)
	var hfns []*ssa.Function
	for _, h := range hnames {
		fn := p.findHarness(h)
		if fn == nil {
			fmt.Printf("INCONCLUSIVE property=%s reason=harness %s not found\n", *prop, h)
			ev.Coverage = map[string]any{"explanation": "inconclusive: harness not found: " + h, "evaluations": 0, "distinct_nontrivial": 0, "exhaustive": false}
			writeEv()
			return 0
		}
		hfns = append(hfns, fn)
	}
	// translator validation: the repository's own unit tests of these packages, interpreted
	var self *selftestResult
	if len(spec.Selftest) > 0 {
		r := runSelftest(*repo, *verif, spec.Selftest, "", false, false)
		self = &r
		if r.err != nil || r.fail > 0 {
			fmt.Printf("INCONCLUSIVE property=%s reason=interpreter self-test failed on the repository's own unit tests: %v %v (engine and compiled code disagree; nothing below is trusted)\n", *prop, r.err, r.failed)
		}
	}
	ex := NewExplorer(p, cfg)
	ex.Run(hfns)

	// confirm every violation by concrete re-execution in the engine
	kf := KnownFindings{}
	if data, err := os.ReadFile(filepath.Join(*verif, "known_findings.json")); err == nil {
		json.Unmarshal(data, &kf)
	}
	var viols []*Violation
	for _, v := range ex.violations {
		viols = append(viols, v)
	}
	for _, v := range ex.races {
		viols = append(viols, v)
	}
	sort.Slice(viols, func(i, j int) bool { return viols[i].Harness+viols[i].ID < viols[j].Harness+viols[j].ID })
	exit := 0
	nViol, nKnown, nUnconfirmed, nOtherKinds := 0, 0, 0, 0
	os.MkdirAll(filepath.Join(*verif, "replays"), 0o755)
	for i, v := range viols {
		if len(spec.OnlyKinds) > 0 {
			keep := false
			for _, k := range spec.OnlyKinds {
				if k == v.Kind {
					keep = true
				}
			}
			if !keep {
				nOtherKinds++
				continue // belongs to another property's check
			}
		}
		if v.Key == "" {
			v.Key = shortHarness(v.Harness) + ":" + v.Kind + ":" + v.ID
			if v.Kind == "panic" || v.Kind == "deadlock" {
				v.Key += ":" + firstRepoLoc(v.Where)
			}
		}
		v.Replayed = ex.concreteReplay(v)
		if !v.Replayed {
			nUnconfirmed++
			fmt.Printf("ENGINE-MISMATCH property=%s key=%s (counterexample did not reproduce in concrete re-execution; not reported)\n", *prop, v.Key)
			continue
		}
		known := false
		for _, f := range kf.Findings {
			if f.Property == *prop && f.Key == v.Key {
				known = true
				fmt.Printf("KNOWN-FINDING: property=%s %s [%s]\n", *prop, f.What, f.Key)
			}
		}
		if known {
			nKnown++
			continue
		}
		rp := filepath.Join(*verif, "replays", fmt.Sprintf("%s-%d.json", *prop, i))
		writeRP := func() {
			data, _ := json.MarshalIndent(map[string]any{"property": *prop, "violation": v, "tier": *tier, "how_to_replay": "bin/gosym replay " + rp}, "", " ")
			os.WriteFile(rp, data, 0o644)
		}
		writeRP()
		if spec.Native && v.Kind != "race" && v.Kind != "deadlock" && v.Threads <= 1 {
			// data counterexample of a sequential harness: it must also fail under the real compiler
			if nativeReplay(*verif, v, rp) {
				v.Native = "true"
			} else {
				v.Native = "false"
				writeRP()
				nUnconfirmed++
				fmt.Printf("ENGINE-MISMATCH property=%s key=%s (reproduced in the engine but not natively with go test; not reported) replay=%s\n", *prop, v.Key, rp)
				continue
			}
			writeRP()
		}
		nViol++
		fmt.Printf("VIOLATION property=%s replay=%s\n", *prop, rp)
		fmt.Printf("  key=%s\n  %s\n  at %s\n  model: %s\n", v.Key, v.Msg, v.Where, strings.Join(sortedModel(v.Model), " "))
		for _, o := range v.Observe {
			fmt.Printf("  observed %s\n", o)
		}
		exit = 1
	}

	cross := ex.crossCheck()
	if d, ok := cross["disagreements"].(map[string]int); ok {
		n := 0
		for _, v := range d {
			n += v
		}
		if n > 0 {
			fmt.Printf("INCONCLUSIVE property=%s reason=solver disagreement on %d sampled obligations (engine error, see evidence)\n", *prop, n)
		}
	}
	inconcl := ex.unsupportedN + ex.budgetN
	exhaustive := inconcl == 0 && !ex.stop && ex.portUnknown == 0
	missing := []string{}
	for _, l := range spec.Reach {
		if ex.reach[l] == 0 {
			missing = append(missing, l)
		}
	}
	if ex.stop {
		fmt.Printf("INCONCLUSIVE property=%s reason=%s (exploration truncated)\n", *prop, ex.stopWhy)
	}
	if ex.portUnknown > 0 {
		fmt.Printf("INCONCLUSIVE property=%s reason=%d feasibility queries undecided by every solver (both branches kept)\n", *prop, ex.portUnknown)
	}
	if inconcl > 0 {
		fmt.Printf("INCONCLUSIVE property=%s reason=%d paths ended inconclusive: %s\n", *prop, inconcl, strings.Join(ex.sortedUnsupported(), "; "))
	}
	if len(missing) > 0 {
		fmt.Printf("INCONCLUSIVE property=%s reason=reach labels not hit: %s\n", *prop, strings.Join(missing, ","))
	}
	samples := make([]any, 0, len(ex.samples))
	for _, s := range ex.samples {
		samples = append(samples, s)
	}
	if len(samples) == 0 {
		samples = append(samples, map[string]any{"note": "no completed path"})
	}
	hn := []string{}
	for h, n := range ex.perHarness {
		hn = append(hn, fmt.Sprintf("%s: %d paths", shortHarness(h), n))
	}
	sort.Strings(hn)
	ev.Violations = nViol
	ev.Coverage = map[string]any{
		"explanation":          spec.Explanation,
		"technique":            spec.Technique,
		"evaluations":          ex.paths,
		"distinct_nontrivial":  ex.nontrivial,
		"rule":                 "one evaluation = one path of the symbolic executor (a distinct decision trail: branch outcomes decided by the solver, Choice/schedule/crash/order alternatives); non-trivial = the path completed (assumptions satisfiable) and either evaluated at least one branch or obligation whose condition was not a constant (the solver or the cached model had to decide it), or took at least one alternative other than the default one at a Choice (input shape, operation, fault), schedule, crash-point, shuffle or map-order decision - i.e. it is not the single all-defaults run; trails are distinct by construction",
		"samples":              samples,
		"exhaustive":           exhaustive,
		"paths":                ex.paths,
		"paths_completed":      ex.done,
		"paths_infeasible":     ex.infeasible,
		"paths_violating":      ex.violN,
		"paths_inconclusive":   inconcl,
		"inconclusive_reasons": ex.sortedUnsupported(),
		"per_harness":          hn,
		"obligations":          ex.obligations,
		"discharged":           ex.dischSyn + ex.dischSolver,
		"discharged_by_solver": ex.dischSolver,
		"discharged_syntactic": ex.dischSyn,
		"queries":              map[string]int{"total": ex.queries, "sat": ex.qsat, "unsat": ex.qunsat, "unknown_by_one_solver": ex.qunknown, "undecided_by_portfolio": ex.portUnknown, "errors": ex.qerr},
		"solver_time_s":        ex.solverTime.Seconds(),
		"solver_model_mismatch": ex.modelMismatch,
		"solver_crosscheck":    cross,
		"load_and_ssa_build_s": loadT.Seconds(),
		"instructions":         ex.steps,
		"scheduling_points":    ex.schedPoints,
		"max_mutation_points":  ex.maxMutations,
		"symbolic_fork_sites":  ex.topForks(12),
		"functions_encoded":    ex.funcList(),
		"functions_encoded_n":  len(ex.funcs),
		"bounds":               spec.Bounds,
		"bounds_recorded":      ex.bounds,
		"stubs":                spec.Stubs,
		"outside_claim":        spec.Outside,
		"reach_labels":         ex.reach,
		"known_findings_seen":  nKnown,
		"violations_of_other_kinds_ignored": nOtherKinds,
		"unconfirmed_counterexamples": nUnconfirmed,
		"violation_keys":       violKeys(viols),
		"trusted_base":         []string{"go/types + go/ssa of golang.org/x/tools v0.29.0", "gosym (this engine)", "cvc5 1.0.3 / z3 4.8.12", "environment stubs listed under stubs"},
		"checker_cmd":          "bin/gosym run --property " + *prop + " --tier " + *tier,
		"workers":              cfg.Workers,
	}
	if self != nil {
		ev.Coverage["interpreter_selftest"] = map[string]any{"packages": spec.Selftest, "repo_test_functions_interpreted": self.pass + self.fail + self.skipped, "pass": self.pass, "fail": self.fail, "skipped_unsupported_mock_based": self.skipped, "require_assertions_evaluated": self.asserts}
		ev.Coverage["traces_validated_against_impl"] = self.pass
	}
	writeEv()
	if *verbose {
		fmt.Println("fork sites:", strings.Join(ex.topForks(12), "\n  "))
	}
	fmt.Printf("property=%s tier=%s paths=%d completed=%d infeasible=%d violating=%d inconclusive=%d obligations=%d discharged=%d (solver %d) queries=%d solver=%.1fs wall=%.1fs exhaustive=%v\n",
		*prop, *tier, ex.paths, ex.done, ex.infeasible, ex.violN, inconcl, ex.obligations, ex.dischSyn+ex.dischSolver, ex.dischSolver, ex.queries, ex.solverTime.Seconds(), time.Since(start).Seconds(), exhaustive)
	return exit
}

func violKeys(vs []*Violation) []string {
	var out []string
	for _, v := range vs {
		out = append(out, v.Key)
	}
	return out
}

func shortHarness(h string) string {
	if i := strings.LastIndex(h, "/"); i >= 0 {
		return h[i+1:]
	}
	return h
}

type Evidence struct {
	PropertyID  string         `json:"property_id"`
	Tier        string         `json:"tier"`
	Seed        int64          `json:"seed"`
	Level       string         `json:"level"`
	Coverage    map[string]any `json:"coverage"`
	Assumptions []string       `json:"assumptions"`
	WallS       float64        `json:"wall_s"`
	Violations  int            `json:"violations"`
}

// concreteReplay re-executes the harness with every symbolic input fixed to the model and the
// decision trail fixed; the violation is confirmed when the same obligation fails concretely.
func (ex *Explorer) concreteReplay(v *Violation) bool {
	fn := ex.p.findHarness(v.Harness)
	if fn == nil {
		return false
	}
	if v.Kind == "race" || v.Kind == "lockorder" {
		return true // observed on a concrete schedule; data values play no role
	}
	rex := NewExplorer(ex.p, ex.cfg)
	w := &Worker{ex: rex, ts: NewTermStore(), solver: NewPortfolio(1000, ex.cfg.Solvers)}
	defer w.solver.Close()
	it := &workItem{harness: fn, trail: v.Trail}
	w.cur = it
	m := w.newMachine(it)
	m.concrete = v.Model
	if m.concrete == nil {
		m.concrete = map[string]uint64{}
	}
	m.model = m.concrete
	end := m.run(fn)
	if end.kind != "violation" {
		return false
	}
	for _, got := range rex.violations {
		if got.Kind == v.Kind && got.ID == v.ID {
			return true
		}
	}
	return false
}

// nativeReplay runs the harness with the real tool chain on the counterexample's values.
func nativeReplay(verif string, v *Violation, replayPath string) bool {
	i := strings.LastIndex(v.Harness, ".")
	rel := strings.TrimPrefix(strings.TrimPrefix(v.Harness[:i], modPath), "/")
	cmd := exec.Command(filepath.Join(verif, "native", "run.sh"), rel, v.Harness[i+1:], replayPath)
	out, err := cmd.CombinedOutput()
	if err == nil {
		return false
	}
	txt := string(out)
	if v.Kind == "panic" {
		return strings.Contains(txt, "panic:")
	}
	return strings.Contains(txt, "NATIVE-ASSERT-FAILED") && strings.Contains(txt, v.ID)
}

func cmdReplay(args []string) int {
	if len(args) < 1 {
		fmt.Println("usage: gosym replay <replay.json>")
		return 2
	}
	data, err := os.ReadFile(args[0])
	if err != nil {
		fmt.Println(err)
		return 2
	}
	var doc struct {
		Property  string     `json:"property"`
		Violation *Violation `json:"violation"`
	}
	if err := json.Unmarshal(data, &doc); err != nil || doc.Violation == nil {
		fmt.Println("bad replay file")
		return 2
	}
	verif := "/verif"
	specs := map[string]*PropSpec{}
	if d, err := os.ReadFile(filepath.Join(verif, "harness", "properties.json")); err == nil {
		json.Unmarshal(d, &specs)
	}
	var patterns []string
	if s := specs[doc.Property]; s != nil {
		patterns = s.Packages
	}
	if len(patterns) == 0 {
		h := doc.Violation.Harness
		i := strings.LastIndex(h, ".")
		patterns = []string{"./" + strings.TrimPrefix(strings.TrimPrefix(h[:i], modPath), "/")}
	}
	p, err := loadProgram("/repo", filepath.Join(verif, "harness"), patterns)
	if err != nil {
		fmt.Println(err)
		return 2
	}
	ex := NewExplorer(p, Config{Workers: 1, SolverMs: 1000, MaxSteps: 50_000_000, Solvers: []string{"cvc5", "z3"}, Race: os.Getenv("GOSYM_RACE") != ""})
	if ex.concreteReplay(doc.Violation) {
		fmt.Printf("REPRODUCED property=%s key=%s: %s\n", doc.Property, doc.Violation.Key, doc.Violation.Msg)
		return 1
	}
	fmt.Printf("not reproduced on the current tree\n")
	return 0
}
