package main

import (
	"bufio"
	"fmt"
	"io"
	"os/exec"
	"strconv"
	"strings"
	"time"
)

// One live solver process. No push/pop: every term is a level-0 define-fun, every
// assumption a declared Bool literal equal to its term; queries are check-sat-assuming.

type SolverProc struct {
	kind    string // "cvc5" | "z3" | "z3-new"
	cmd     *exec.Cmd
	in      io.WriteCloser
	out     *bufio.Reader
	lines   chan string
	defined map[int]bool
	lits    map[int]bool
	dead    bool
	limitMs int

	Queries, Sat, Unsat, Unknown, Errors int
	Time                                 time.Duration
}

func startSolver(kind string, limitMs int) (*SolverProc, error) {
	var cmd *exec.Cmd
	switch kind {
	case "cvc5":
		cmd = exec.Command("cvc5", "--incremental", "--lang", "smt2", "--produce-models", fmt.Sprintf("--tlimit-per=%d", limitMs))
	case "z3":
		cmd = exec.Command("z3", "-in", fmt.Sprintf("-t:%d", limitMs))
	case "z3-new":
		cmd = exec.Command("z3-new", "-in", fmt.Sprintf("-t:%d", limitMs))
	default:
		return nil, fmt.Errorf("unknown solver %s", kind)
	}
	in, err := cmd.StdinPipe()
	if err != nil {
		return nil, err
	}
	outp, err := cmd.StdoutPipe()
	if err != nil {
		return nil, err
	}
	cmd.Stderr = cmd.Stdout
	if err := cmd.Start(); err != nil {
		return nil, err
	}
	s := &SolverProc{kind: kind, cmd: cmd, in: in, out: bufio.NewReaderSize(outp, 1<<16), defined: map[int]bool{}, lits: map[int]bool{}, limitMs: limitMs}
	s.lines = make(chan string, 64)
	go func() {
		for {
			l, err := s.out.ReadString('\n')
			if l != "" {
				s.lines <- strings.TrimRight(l, "\r\n")
			}
			if err != nil {
				close(s.lines)
				return
			}
		}
	}()
	if kind == "cvc5" {
		s.send("(set-logic QF_BV)\n")
	}
	s.send("(set-option :produce-models true)\n")
	return s, nil
}

func (s *SolverProc) send(str string) {
	if s.dead {
		return
	}
	if _, err := io.WriteString(s.in, str); err != nil {
		s.dead = true
	}
}

func (s *SolverProc) kill() {
	s.dead = true
	if s.cmd != nil && s.cmd.Process != nil {
		s.cmd.Process.Kill()
		go s.cmd.Wait()
	}
}

func (s *SolverProc) close() {
	if s == nil {
		return
	}
	if !s.dead {
		io.WriteString(s.in, "(exit)\n")
		s.in.Close()
	}
	s.kill()
}

// readLine waits for one reply line (hard cap well above the solver's own limit).
func (s *SolverProc) readLine() (string, bool) {
	select {
	case l, ok := <-s.lines:
		if !ok {
			s.dead = true
			return "", false
		}
		return l, true
	case <-time.After(time.Duration(s.limitMs)*time.Millisecond*3 + 5*time.Second):
		s.kill()
		return "", false
	}
}

func tname(t *Term) string { return "t!" + strconv.Itoa(t.id) }

func varName(t *Term) string { return "|" + t.name + "|" }

// emitDefs writes define-funs for every not yet defined node under t (post-order, iterative).
func emitDefs(sb *strings.Builder, defined map[int]bool, root *Term) {
	type item struct {
		t    *Term
		done bool
	}
	stack := []item{{root, false}}
	for len(stack) > 0 {
		it := stack[len(stack)-1]
		stack = stack[:len(stack)-1]
		t := it.t
		if defined[t.id] {
			continue
		}
		if t.op == OpConst {
			continue
		}
		if !it.done {
			stack = append(stack, item{t, true})
			for _, a := range t.a {
				if a == nil {
					break
				}
				if !defined[a.id] && a.op != OpConst {
					stack = append(stack, item{a, false})
				}
			}
			continue
		}
		defined[t.id] = true
		if t.op == OpVar {
			fmt.Fprintf(sb, "(declare-const %s %s)\n", varName(t), sortName(t.w))
			continue
		}
		fmt.Fprintf(sb, "(define-fun %s () %s ", tname(t), sortName(t.w))
		writeBody(sb, t)
		sb.WriteString(")\n")
	}
}

func ref(t *Term) string {
	switch t.op {
	case OpConst:
		return constLit(t.w, t.val)
	case OpVar:
		return varName(t)
	}
	return tname(t)
}

func writeBody(sb *strings.Builder, t *Term) {
	switch t.op {
	case OpExtract:
		fmt.Fprintf(sb, "((_ extract %d %d) %s)", t.val>>8, t.val&0xff, ref(t.a[0]))
	case OpZext:
		fmt.Fprintf(sb, "((_ zero_extend %d) %s)", t.w-t.a[0].w, ref(t.a[0]))
	case OpSext:
		fmt.Fprintf(sb, "((_ sign_extend %d) %s)", t.w-t.a[0].w, ref(t.a[0]))
	default:
		sb.WriteString("(")
		sb.WriteString(opNames[t.op])
		for _, a := range t.a {
			if a == nil {
				break
			}
			sb.WriteString(" ")
			sb.WriteString(ref(a))
		}
		sb.WriteString(")")
	}
}

// literal returns the name of a declared Bool constant equal to t.
func (s *SolverProc) literal(sb *strings.Builder, t *Term) string {
	neg := false
	if t.op == OpNot {
		neg = true
		t = t.a[0]
	}
	var name string
	if t.op == OpVar {
		emitDefs(sb, s.defined, t)
		name = varName(t)
	} else {
		name = "a!" + strconv.Itoa(t.id)
		if !s.lits[t.id] {
			emitDefs(sb, s.defined, t)
			fmt.Fprintf(sb, "(declare-const %s Bool)\n(assert (= %s %s))\n", name, name, ref(t))
			s.lits[t.id] = true
		}
	}
	if neg {
		return "(not " + name + ")"
	}
	return name
}

// Check decides satisfiability of the conjunction. Returns "sat", "unsat" or "unknown".
func (s *SolverProc) Check(conj []*Term) string {
	if s.dead {
		return "unknown"
	}
	start := time.Now()
	var sb strings.Builder
	var lits []string
	for _, c := range conj {
		if c.IsTrue() {
			continue
		}
		if c.IsFalse() {
			return "unsat"
		}
		lits = append(lits, s.literal(&sb, c))
	}
	sb.WriteString("(check-sat-assuming (")
	sb.WriteString(strings.Join(lits, " "))
	sb.WriteString("))\n")
	s.send(sb.String())
	s.Queries++
	res := "unknown"
	for {
		l, ok := s.readLine()
		if !ok {
			res = "unknown"
			break
		}
		if l == "sat" || l == "unsat" || l == "unknown" {
			res = l
			break
		}
		if strings.HasPrefix(l, "(error") || strings.Contains(l, "rror") {
			s.Errors++
			// an error desynchronises the stream: restart the process next time
			s.kill()
			res = "unknown"
			break
		}
		if strings.Contains(l, "interrupted") || strings.Contains(l, "timeout") {
			res = "unknown"
			if s.kind == "cvc5" {
				// cvc5 prints the notice and then "unknown" on the next line in some builds
				continue
			}
			break
		}
	}
	s.Time += time.Since(start)
	switch res {
	case "sat":
		s.Sat++
	case "unsat":
		s.Unsat++
	default:
		s.Unknown++
	}
	return res
}

// Model fetches values of the given variables after a sat answer.
func (s *SolverProc) Model(vars []*Term) (map[string]uint64, bool) {
	m := map[string]uint64{}
	if len(vars) == 0 {
		return m, true
	}
	if s.dead {
		return nil, false
	}
	var sb strings.Builder
	sb.WriteString("(get-value (")
	for i, v := range vars {
		if i > 0 {
			sb.WriteString(" ")
		}
		if !s.defined[v.id] {
			// a variable the solver has not seen is unconstrained
			continue
		}
		sb.WriteString(varName(v))
	}
	sb.WriteString("))\n")
	s.send(sb.String())
	// reply may span lines; read until parentheses balance
	var buf strings.Builder
	depth := 0
	started := false
	for {
		l, ok := s.readLine()
		if !ok {
			return nil, false
		}
		if strings.HasPrefix(l, "(error") {
			s.Errors++
			s.kill()
			return nil, false
		}
		inBar := false
		for _, ch := range l {
			if ch == '|' {
				inBar = !inBar
			}
			if inBar {
				continue
			}
			if ch == '(' {
				depth++
				started = true
			} else if ch == ')' {
				depth--
			}
		}
		buf.WriteString(l)
		buf.WriteString(" ")
		if started && depth <= 0 {
			break
		}
	}
	toks := tokenize(buf.String())
	// ((name val) (name val) ...)
	for i := 0; i+1 < len(toks); i++ {
		if toks[i] == "(" && i+3 < len(toks) && toks[i+1] != "(" && toks[i+3] == ")" {
			name := strings.Trim(toks[i+1], "|")
			val := toks[i+2]
			switch {
			case val == "true":
				m[name] = 1
			case val == "false":
				m[name] = 0
			case strings.HasPrefix(val, "#x"):
				u, _ := strconv.ParseUint(val[2:], 16, 64)
				m[name] = u
			case strings.HasPrefix(val, "#b"):
				u, _ := strconv.ParseUint(val[2:], 2, 64)
				m[name] = u
			}
		}
	}
	return m, true
}

func tokenize(s string) []string {
	var toks []string
	i := 0
	for i < len(s) {
		c := s[i]
		switch {
		case c == ' ' || c == '\t' || c == '\n':
			i++
		case c == '(' || c == ')':
			toks = append(toks, string(c))
			i++
		case c == '|':
			j := i + 1
			for j < len(s) && s[j] != '|' {
				j++
			}
			toks = append(toks, s[i:min(j+1, len(s))])
			i = j + 1
		default:
			j := i
			for j < len(s) && s[j] != ' ' && s[j] != '(' && s[j] != ')' && s[j] != '\n' {
				j++
			}
			toks = append(toks, s[i:j])
			i = j
		}
	}
	return toks
}

// Standalone renders a self-contained script for the conjunction (used by the cross-check).
func Standalone(conj []*Term) string {
	var sb strings.Builder
	sb.WriteString("(set-logic QF_BV)\n")
	defined := map[int]bool{}
	for _, c := range conj {
		emitDefs(&sb, defined, c)
	}
	for _, c := range conj {
		fmt.Fprintf(&sb, "(assert %s)\n", ref(c))
	}
	sb.WriteString("(check-sat)\n")
	return sb.String()
}

// Portfolio: cvc5 first; a query it does not decide goes to z3.
type Portfolio struct {
	limitMs int
	primary *SolverProc
	second  *SolverProc
	order   []string
}

func NewPortfolio(limitMs int, order []string) *Portfolio {
	return &Portfolio{limitMs: limitMs, order: order}
}

func (p *Portfolio) get(i int) *SolverProc {
	slot := &p.primary
	if i == 1 {
		slot = &p.second
	}
	if *slot == nil || (*slot).dead {
		var old *SolverProc = *slot
		lim := p.limitMs
		if i == 0 && len(p.order) > 1 {
			lim = min(lim, 3000)
		}
		s, err := startSolver(p.order[i], lim)
		if err != nil {
			return nil
		}
		if old != nil {
			s.Queries, s.Sat, s.Unsat, s.Unknown, s.Errors, s.Time = old.Queries, old.Sat, old.Unsat, old.Unknown, old.Errors, old.Time
		}
		*slot = s
	}
	return *slot
}

// Check returns result and the solver that decided (for model retrieval).
func (p *Portfolio) Check(conj []*Term) (string, *SolverProc) {
	for i := range p.order {
		if i > 1 {
			break
		}
		s := p.get(i)
		if s == nil {
			continue
		}
		r := s.Check(conj)
		if r == "sat" || r == "unsat" {
			return r, s
		}
	}
	return "unknown", nil
}

func (p *Portfolio) Close() {
	p.primary.close()
	p.second.close()
}

func (p *Portfolio) Stats() (q, sat, unsat, unknown, errs int, t time.Duration) {
	for _, s := range []*SolverProc{p.primary, p.second} {
		if s != nil {
			q += s.Queries
			sat += s.Sat
			unsat += s.Unsat
			unknown += s.Unknown
			errs += s.Errors
			t += s.Time
		}
	}
	return
}
