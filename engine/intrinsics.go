package main

import (
	"fmt"
	"go/types"
	"os"
	"path"
	"sort"
	"strconv"
	"strings"
	"time"

	"golang.org/x/tools/go/ssa"
)

type intrinsicFn func(m *Machine, th *Thread, fn *ssa.Function, args []Value) (Value, bool)

const ndPkg = "github.com/glebziz/fs_db/internal/verifnd"

// redirects: library function -> harness-side model written in Go (interpreted like any other code)
var redirects = map[string]string{}

var envPkg = "github.com/glebziz/fs_db/internal/verifenv"

func init() {
	for lib, stub := range map[string]string{
		"os.Create":               "OsCreate",
		"os.Open":                 "OsOpen",
		"os.Remove":               "OsRemove",
		"os.OpenFile":             "OsOpenFile",
		"os.Stat":                 "OsStat",
		"os.Lstat":                "OsStat",
		"os.ReadFile":             "OsReadFile",
		"os.WriteFile":            "OsWriteFile",
		"os.Mkdir":                "OsMkdir",
		"os.RemoveAll":            "OsRemoveAll",
		"os.Rename":               "OsRename",
		"os.Truncate":             "OsTruncate",
		"(*os.File).Stat":         "FileStat",
		"(*os.File).Readdirnames": "FileReaddirnames",
		"(*os.File).ReadDir":      "FileReadDir",
		"(*os.File).Readdir":      "FileReaddir",
		"(*os.File).Name":         "FileName",
		"(*os.File).Sync":         "FileSync",
		"(*os.File).WriteString":  "FileWriteString",
		"(*os.File).Truncate":     "FileTruncate",
		"(*os.File).ReadAt":       "FileReadAt",
		"os.ReadDir":              "OsReadDir",
		"os.MkdirAll":             "OsMkdirAll",
		"os.LookupEnv":            "OsLookupEnv",
		"(*os.File).Read":         "FileRead",
		"(*os.File).Write":        "FileWrite",
		"(*os.File).Close":        "FileClose",
		"(*os.File).Seek":         "FileSeek",
		"(*os.File).ReadFrom":     "FileReadFrom",
		"(*os.File).WriteTo":      "FileWriteTo",
		"github.com/shirou/gopsutil/disk.UsageWithContext":             "DiskUsage",
		"gopkg.in/yaml.v2.NewDecoder":                                  "YamlNewDecoder",
		"(*gopkg.in/yaml.v2.Decoder).Decode":                           "YamlDecode",
		"github.com/dgraph-io/badger/v3.Open":                          "BadgerOpen",
		"github.com/dgraph-io/badger/v3.DefaultOptions":                "BadgerDefaultOptions",
		"(*github.com/dgraph-io/badger/v3.DB).Update":                  "DBUpdate",
		"(*github.com/dgraph-io/badger/v3.DB).View":                    "DBView",
		"(*github.com/dgraph-io/badger/v3.DB).Close":                   "DBClose",
		"(*github.com/dgraph-io/badger/v3.DB).RunValueLogGC":           "DBRunValueLogGC",
		"(*github.com/dgraph-io/badger/v3.Txn).Set":                    "TxnSet",
		"(*github.com/dgraph-io/badger/v3.Txn).Delete":                 "TxnDelete",
		"(*github.com/dgraph-io/badger/v3.Txn).Get":                    "TxnGet",
		"(*github.com/dgraph-io/badger/v3.Txn).NewIterator":            "TxnNewIterator",
		"(*github.com/dgraph-io/badger/v3.Iterator).Seek":              "IterSeek",
		"(*github.com/dgraph-io/badger/v3.Iterator).ValidForPrefix":    "IterValidForPrefix",
		"(*github.com/dgraph-io/badger/v3.Iterator).Next":              "IterNext",
		"(*github.com/dgraph-io/badger/v3.Iterator).Item":              "IterItem",
		"(*github.com/dgraph-io/badger/v3.Iterator).Close":             "IterClose",
		"(*github.com/dgraph-io/badger/v3.Item).Key":                   "ItemKey",
		"(*github.com/dgraph-io/badger/v3.Item).Value":                 "ItemValue",
		"(*github.com/dgraph-io/badger/v3.Item).IsDeletedOrExpired":    "ItemIsDeletedOrExpired",
		"(*github.com/dgraph-io/badger/v3.Item).Version":               "ItemVersion",
		"(*github.com/dgraph-io/badger/v3.Item).UserMeta":              "ItemUserMeta",
		"(*github.com/dgraph-io/badger/v3.Item).ExpiresAt":             "ItemExpiresAt",
		"(*github.com/dgraph-io/badger/v3.Item).ValueSize":             "ItemValueSize",
		"(*github.com/dgraph-io/badger/v3.Item).EstimatedSize":         "ItemEstimatedSize",
		"(*github.com/dgraph-io/badger/v3.Item).KeyCopy":               "ItemKeyCopy",
		"(*github.com/dgraph-io/badger/v3.Item).ValueCopy":             "ItemValueCopy",
		"(*github.com/dgraph-io/badger/v3.Item).String":                "ItemString",
		"(*github.com/dgraph-io/badger/v3.Iterator).Rewind":            "IterRewind",
		"(*github.com/dgraph-io/badger/v3.Iterator).Valid":             "IterValid",
		"google.golang.org/grpc.NewServer":                             "GrpcNewServer",
		"google.golang.org/grpc.ChainUnaryInterceptor":                 "GrpcChainUnaryInterceptor",
		"google.golang.org/grpc.ChainStreamInterceptor":                "GrpcChainStreamInterceptor",
		"(*google.golang.org/grpc.Server).RegisterService":             "GrpcRegisterService",
		"google.golang.org/grpc/status.New":                            "StatusNew",
		"google.golang.org/grpc/status.Convert":                        "StatusConvert",
		"(*google.golang.org/grpc/internal/status.Status).WithDetails": "StatusWithDetails",
		"(*google.golang.org/grpc/internal/status.Status).Details":     "StatusDetails",
		"(*google.golang.org/grpc/internal/status.Status).Err":         "StatusErr",
		"(*google.golang.org/grpc/internal/status.Status).Code":        "StatusCode",
		"(*google.golang.org/grpc/internal/status.Status).Message":     "StatusMessage",
	} {
		redirects[lib] = envPkg + "." + stub
	}
	// redirects that apply only while a harness has switched the named mode on
	for lib, stub := range map[string]string{
		"(*github.com/glebziz/fs_db/internal/utils/wpool.Pool).Run":   "PoolRun",
		"(*github.com/glebziz/fs_db/internal/utils/wpool.Pool).Send":  "PoolSend",
		"(*github.com/glebziz/fs_db/internal/utils/wpool.Pool).Sched": "PoolSched",
		"(*github.com/glebziz/fs_db/internal/utils/wpool.Pool).Stop":  "PoolStop",
	} {
		redirects[lib] = envPkg + "." + stub
		redirectMode[lib] = "seqpool"
	}
}

var redirectMode = map[string]string{}

var intrinsics = map[string]intrinsicFn{}

// packages whose every function is a no-op returning zero values
var noopPkgs = map[string]bool{"log/slog": true, "log": true}

// library packages executed as one atomic step per call (reduction (a) of DESIGN 2.6)
var atomicPkgs = map[string]bool{"context": true, "bytes": true, "io": true}

func lookupIntrinsic(name string, fn *ssa.Function) (intrinsicFn, bool) {
	if f, ok := intrinsics[name]; ok {
		return f, false
	}
	if strings.HasPrefix(name, ndPkg+".") {
		return func(m *Machine, th *Thread, fn *ssa.Function, args []Value) (Value, bool) {
			m.unsupported("nd function without intrinsic: " + name)
			return nil, true
		}, false
	}
	pkg := fn.Pkg
	if pkg == nil {
		if o := fn.Origin(); o != nil {
			pkg = o.Pkg
		}
	}
	if pkg != nil && noopPkgs[pkg.Pkg.Path()] {
		return intrNoop, false
	}
	if fn.Signature.Recv() != nil {
		// methods of types in no-op packages (slog.Logger etc.)
		if n, ok := derefNamed(fn.Signature.Recv().Type()); ok && n.Obj().Pkg() != nil && noopPkgs[n.Obj().Pkg().Path()] {
			return intrNoop, false
		}
	}
	return nil, false
}

func derefNamed(t types.Type) (*types.Named, bool) {
	if p, ok := t.(*types.Pointer); ok {
		t = p.Elem()
	}
	n, ok := t.(*types.Named)
	return n, ok
}

func intrNoop(m *Machine, th *Thread, fn *ssa.Function, args []Value) (Value, bool) {
	return m.zeroResults(fn), true
}

func reg(name string, f intrinsicFn) { intrinsics[name] = f }

func boolArgs(m *Machine, v Value) []*Term {
	s := v.(SliceV)
	out := make([]*Term, len(s.cells))
	for i, c := range s.cells {
		out[i] = c.v.(*Term)
	}
	return out
}

func (m *Machine) freshName(base string) string {
	n := m.nameCount[base]
	m.nameCount[base] = n + 1
	if n == 0 {
		return base
	}
	return fmt.Sprintf("%s#%d", base, n)
}

func (m *Machine) symVar(w uint8, base string) *Term {
	name := m.freshName(base)
	return m.ts.Var(w, name)
}

func init() {
	nd := func(n string, f intrinsicFn) { reg(ndPkg+"."+n, f) }
	nd("U64", func(m *Machine, th *Thread, fn *ssa.Function, a []Value) (Value, bool) {
		return m.symVar(64, m.mustStr(a[0])), true
	})
	nd("U8", func(m *Machine, th *Thread, fn *ssa.Function, a []Value) (Value, bool) {
		return m.symVar(8, m.mustStr(a[0])), true
	})
	nd("I32", func(m *Machine, th *Thread, fn *ssa.Function, a []Value) (Value, bool) {
		return m.symVar(32, m.mustStr(a[0])), true
	})
	nd("Bool", func(m *Machine, th *Thread, fn *ssa.Function, a []Value) (Value, bool) {
		return m.symVar(0, m.mustStr(a[0])), true
	})
	nd("Choice", func(m *Machine, th *Thread, fn *ssa.Function, a []Value) (Value, bool) {
		n := m.concreteInt(a[1], "Choice bound")
		if n <= 0 {
			panic(pathEnd{"infeasible", "empty choice"})
		}
		d := 0
		if n > 1 {
			d = m.decideN(n, "choice:"+m.mustStr(a[0]))
		}
		m.labels = append(m.labels, fmt.Sprintf("%s=%d", m.mustStr(a[0]), d))
		if n > 1 {
			m.choices = append(m.choices, d)
		}
		return m.ts.Const(64, uint64(d)), true
	})
	nd("Bytes", func(m *Machine, th *Thread, fn *ssa.Function, a []Value) (Value, bool) {
		n := m.concreteInt(a[1], "Bytes length")
		base := m.freshName(m.mustStr(a[0]))
		cells := make([]*Cell, n)
		for i := range cells {
			name := fmt.Sprintf("%s[%d]", base, i)
			cells[i] = &Cell{v: m.ts.Var(8, name)}
		}
		return SliceV{cells: cells, nonnil: true}, true
	})
	nd("SymString", func(m *Machine, th *Thread, fn *ssa.Function, a []Value) (Value, bool) {
		n := m.concreteInt(a[1], "SymString length")
		base := m.freshName(m.mustStr(a[0]))
		b := make([]*Term, n)
		for i := range b {
			name := fmt.Sprintf("%s[%d]", base, i)
			b[i] = m.ts.Var(8, name)
		}
		return normStr(m, &SymStr{b}), true
	})
	nd("And", func(m *Machine, th *Thread, fn *ssa.Function, a []Value) (Value, bool) {
		r := m.ts.True
		for _, t := range boolArgs(m, a[0]) {
			r = m.ts.And(r, t)
		}
		return r, true
	})
	nd("Or", func(m *Machine, th *Thread, fn *ssa.Function, a []Value) (Value, bool) {
		r := m.ts.False
		for _, t := range boolArgs(m, a[0]) {
			r = m.ts.Or(r, t)
		}
		return r, true
	})
	nd("Not", func(m *Machine, th *Thread, fn *ssa.Function, a []Value) (Value, bool) {
		return m.ts.Not(a[0].(*Term)), true
	})
	nd("Implies", func(m *Machine, th *Thread, fn *ssa.Function, a []Value) (Value, bool) {
		return m.ts.Implies(a[0].(*Term), a[1].(*Term)), true
	})
	nd("IteU64", func(m *Machine, th *Thread, fn *ssa.Function, a []Value) (Value, bool) {
		return m.ts.Ite(a[0].(*Term), a[1].(*Term), a[2].(*Term)), true
	})
	nd("EqBytes", func(m *Machine, th *Thread, fn *ssa.Function, a []Value) (Value, bool) {
		x, y := a[0].(SliceV), a[1].(SliceV)
		if len(x.cells) != len(y.cells) {
			return m.ts.False, true
		}
		r := m.ts.True
		for i := range x.cells {
			r = m.ts.And(r, m.ts.Eq(x.cells[i].v.(*Term), y.cells[i].v.(*Term)))
		}
		return r, true
	})
	nd("EqStr", func(m *Machine, th *Thread, fn *ssa.Function, a []Value) (Value, bool) {
		return m.equal(a[0], a[1]), true
	})
	nd("Assume", func(m *Machine, th *Thread, fn *ssa.Function, a []Value) (Value, bool) {
		c := a[0].(*Term)
		if c.IsTrue() {
			return nil, true
		}
		if m.replaying() && m.concrete == nil {
			m.pc = append(m.pc, c)
			return nil, true
		}
		ok, _ := m.feasible(c, true)
		if !ok {
			panic(pathEnd{"infeasible", "assumption"})
		}
		m.addPC(c)
		return nil, true
	})
	nd("Assert", func(m *Machine, th *Thread, fn *ssa.Function, a []Value) (Value, bool) {
		id := m.mustStr(a[1])
		m.obligation(a[0].(*Term), "assert", id, "assertion "+id+" can fail")
		return nil, true
	})
	nd("Reach", func(m *Machine, th *Thread, fn *ssa.Function, a []Value) (Value, bool) {
		m.reached[m.mustStr(a[0])] = true
		return nil, true
	})
	nd("Observe", func(m *Machine, th *Thread, fn *ssa.Function, a []Value) (Value, bool) {
		m.observes = append(m.observes, m.mustStr(a[0])+"="+m.describeLazy(a[1]))
		return nil, true
	})
	nd("Symbolic", func(m *Machine, th *Thread, fn *ssa.Function, a []Value) (Value, bool) {
		return m.ts.True, true
	})
	nd("SetMapOrder", func(m *Machine, th *Thread, fn *ssa.Function, a []Value) (Value, bool) {
		m.mapOrder = m.concreteInt(a[0], "map order")
		return nil, true
	})
	nd("SetPreemptionBound", func(m *Machine, th *Thread, fn *ssa.Function, a []Value) (Value, bool) {
		m.maxPreempt = m.concreteInt(a[0], "preemption bound") + m.w.ex.cfg.ExtraPreempt
		return nil, true
	})
	nd("SpawnRunsFirst", func(m *Machine, th *Thread, fn *ssa.Function, a []Value) (Value, bool) {
		m.spawnFork = a[0].(*Term).IsTrue()
		return nil, true
	})
	nd("Tier", func(m *Machine, th *Thread, fn *ssa.Function, a []Value) (Value, bool) {
		return m.ts.Const(64, uint64(m.w.ex.cfg.TierN)), true
	})
	nd("RaceMonitor", func(m *Machine, th *Thread, fn *ssa.Function, a []Value) (Value, bool) {
		m.raceOn = a[0].(*Term).IsTrue()
		if m.raceOn {
			m.tick(th)
		}
		return nil, true
	})
	nd("Track", func(m *Machine, th *Thread, fn *ssa.Function, a []Value) (Value, bool) {
		// register an object for race monitoring (pointer inside an interface)
		if iv, ok := a[0].(IfaceV); ok {
			if c, ok := iv.v.(*Cell); ok && c != nil {
				markMon(c, m.mustStr(a[1]))
			}
		}
		return nil, true
	})
	nd("JoinAll", func(m *Machine, th *Thread, fn *ssa.Function, a []Value) (Value, bool) {
		can := func() bool {
			for _, o := range m.threads {
				if o != th && o.state != stDone {
					return false
				}
			}
			return true
		}
		if !can() {
			return m.block(th, "JoinAll", can)
		}
		m.acquire(th, m.sync.exitVC)
		return nil, true
	})
	nd("Quiescent", func(m *Machine, th *Thread, fn *ssa.Function, a []Value) (Value, bool) {
		// block until every other thread is blocked or done
		can := func() bool {
			for _, o := range m.threads {
				if o != th && m.enabled(o) {
					return false
				}
			}
			return true
		}
		if !can() {
			th.state = stBlocked
			th.blockedOn = "Quiescent"
			th.canRun = can
			// lowest priority: only runs when nobody else can (pickNext prefers others)
			th.lowPrio = true
			return nil, false
		}
		th.lowPrio = false
		return nil, true
	})
	nd("Yield", func(m *Machine, th *Thread, fn *ssa.Function, a []Value) (Value, bool) {
		if !m.schedGate(th, "yield") {
			return nil, false
		}
		return nil, true
	})
	nd("Mutation", func(m *Machine, th *Thread, fn *ssa.Function, a []Value) (Value, bool) {
		if !m.schedGate(th, "mutation") {
			return nil, false
		}
		m.mutationPoint(th, m.mustStr(a[0]))
		return nil, true
	})
	nd("EnableCrash", func(m *Machine, th *Thread, fn *ssa.Function, a []Value) (Value, bool) {
		m.crashOn = a[0].(*Term).IsTrue()
		return nil, true
	})
	nd("RunCrashable", func(m *Machine, th *Thread, fn *ssa.Function, a []Value) (Value, bool) {
		cl := a[0].(*Closure)
		caller := th.top()
		// the call instruction's slot: find it from the caller's current instruction (pc already advanced)
		call := caller.block.Instrs[caller.pc-1].(*ssa.Call)
		fr := m.pushFrame(th, cl.fn, cl.binds, nil, caller.info.idx[call])
		fr.crashBar = true
		m.crashOn = true
		return m.ts.False, true
	})
	nd("NumThreads", func(m *Machine, th *Thread, fn *ssa.Function, a []Value) (Value, bool) {
		n := 0
		for _, o := range m.threads {
			if o.state != stDone {
				n++
			}
		}
		return m.ts.Const(64, uint64(n)), true
	})
	nd("Bound", func(m *Machine, th *Thread, fn *ssa.Function, a []Value) (Value, bool) {
		m.w.ex.mu.Lock()
		m.w.ex.bounds[m.mustStr(a[0])] = m.concreteInt(a[1], "bound")
		m.w.ex.mu.Unlock()
		return nil, true
	})
	nd("SetMode", func(m *Machine, th *Thread, fn *ssa.Function, a []Value) (Value, bool) {
		if m.modes == nil {
			m.modes = map[string]bool{}
		}
		m.modes[m.mustStr(a[0])] = a[1].(*Term).IsTrue()
		return nil, true
	})
	nd("SymLen", func(m *Machine, th *Thread, fn *ssa.Function, a []Value) (Value, bool) {
		s := a[0].(SliceV)
		s.symLen = a[1].(*Term)
		if s.symLen.op == OpConst && s.symLen.val == uint64(len(s.cells)) {
			s.symLen = nil
		}
		return s, true
	})
	nd("ScratchDir", func(m *Machine, th *Thread, fn *ssa.Function, a []Value) (Value, bool) {
		return "verif_scratch", true
	})
	nd("FreshUUID", func(m *Machine, th *Thread, fn *ssa.Function, a []Value) (Value, bool) {
		m.uuidCount++
		return fmt.Sprintf("00000000-0000-4000-8000-%012d", m.uuidCount), true
	})

	// ---------- sync ----------
	mu := func(m *Machine, c *Cell) *mutexSt {
		st := m.sync.mutex[c]
		if st == nil {
			st = &mutexSt{}
			m.sync.mutex[c] = st
		}
		return st
	}
	reg("(*sync.Mutex).Lock", func(m *Machine, th *Thread, fn *ssa.Function, a []Value) (Value, bool) {
		st := mu(m, a[0].(*Cell))
		if st.locked {
			return m.block(th, "Mutex.Lock", func() bool { return !st.locked })
		}
		if !m.schedGate(th, "Lock") {
			return nil, false
		}
		st.locked, st.owner = true, th.id
		m.acquire(th, st.vc)
		m.lockAcquired(th, a[0].(*Cell))
		return nil, true
	})
	reg("(*sync.Mutex).TryLock", func(m *Machine, th *Thread, fn *ssa.Function, a []Value) (Value, bool) {
		st := mu(m, a[0].(*Cell))
		if !m.schedGate(th, "TryLock") {
			return nil, false
		}
		if st.locked {
			return m.ts.False, true
		}
		st.locked, st.owner = true, th.id
		m.acquire(th, st.vc)
		return m.ts.True, true
	})
	reg("(*sync.Mutex).Unlock", func(m *Machine, th *Thread, fn *ssa.Function, a []Value) (Value, bool) {
		st := mu(m, a[0].(*Cell))
		if !m.schedGate(th, "Unlock") {
			return nil, false
		}
		if !st.locked {
			m.goPanic("sync: unlock of unlocked mutex")
		}
		st.locked = false
		m.release(th, &st.vc)
		m.lockReleased(th, a[0].(*Cell))
		return nil, true
	})
	rw := func(m *Machine, c *Cell) *rwSt {
		st := m.sync.rw[c]
		if st == nil {
			st = &rwSt{}
			m.sync.rw[c] = st
		}
		return st
	}
	reg("(*sync.RWMutex).Lock", func(m *Machine, th *Thread, fn *ssa.Function, a []Value) (Value, bool) {
		st := rw(m, a[0].(*Cell))
		if st.writer || st.readers > 0 {
			if st.pending == nil {
				st.pending = map[int]bool{}
			}
			st.pending[th.id] = true // a waiting writer excludes new readers
			return m.block(th, "RWMutex.Lock", func() bool { return !st.writer && st.readers == 0 })
		}
		if !m.schedGate(th, "Lock") {
			return nil, false
		}
		delete(st.pending, th.id)
		st.writer = true
		m.acquire(th, st.vcW)
		m.acquire(th, st.vcR)
		m.lockAcquired(th, a[0].(*Cell))
		if os.Getenv("GOSYM_TRACE") != "" {
			fmt.Fprintf(os.Stderr, "T%d RW.Lock %p vcW=%v -> vc=%v at %s\n", th.id, a[0].(*Cell), st.vcW, th.vc, m.whereShort(th))
		}
		return nil, true
	})
	reg("(*sync.RWMutex).Unlock", func(m *Machine, th *Thread, fn *ssa.Function, a []Value) (Value, bool) {
		st := rw(m, a[0].(*Cell))
		if !m.schedGate(th, "Unlock") {
			return nil, false
		}
		if !st.writer {
			m.goPanic("sync: Unlock of unlocked RWMutex")
		}
		st.writer = false
		m.release(th, &st.vcW)
		m.lockReleased(th, a[0].(*Cell))
		if os.Getenv("GOSYM_TRACE") != "" {
			fmt.Fprintf(os.Stderr, "T%d RW.Unlock %p vcW=%v at %s\n", th.id, a[0].(*Cell), st.vcW, m.whereShort(th))
		}
		return nil, true
	})
	reg("(*sync.RWMutex).RLock", func(m *Machine, th *Thread, fn *ssa.Function, a []Value) (Value, bool) {
		st := rw(m, a[0].(*Cell))
		if st.writer || len(st.pending) > 0 {
			return m.block(th, "RWMutex.RLock", func() bool { return !st.writer && len(st.pending) == 0 })
		}
		if !m.schedGate(th, "RLock") {
			return nil, false
		}
		st.readers++
		m.acquire(th, st.vcW)
		m.lockAcquired(th, a[0].(*Cell))
		return nil, true
	})
	reg("(*sync.RWMutex).RUnlock", func(m *Machine, th *Thread, fn *ssa.Function, a []Value) (Value, bool) {
		st := rw(m, a[0].(*Cell))
		if !m.schedGate(th, "RUnlock") {
			return nil, false
		}
		if st.readers <= 0 {
			m.goPanic("sync: RUnlock of unlocked RWMutex")
		}
		st.readers--
		m.release(th, &st.vcR)
		m.lockReleased(th, a[0].(*Cell))
		return nil, true
	})
	reg("(*sync.RWMutex).TryLock", func(m *Machine, th *Thread, fn *ssa.Function, a []Value) (Value, bool) {
		st := rw(m, a[0].(*Cell))
		if !m.schedGate(th, "TryLock") {
			return nil, false
		}
		if st.writer || st.readers > 0 {
			return m.ts.False, true
		}
		st.writer = true
		m.acquire(th, st.vcW)
		m.acquire(th, st.vcR)
		return m.ts.True, true
	})
	wg := func(m *Machine, c *Cell) *wgSt {
		st := m.sync.wg[c]
		if st == nil {
			st = &wgSt{}
			m.sync.wg[c] = st
		}
		return st
	}
	wgAdd := func(m *Machine, th *Thread, c *Cell, d int64) (Value, bool) {
		st := wg(m, c)
		if !m.schedGate(th, "WaitGroup.Add") {
			return nil, false
		}
		st.n += d
		if st.n < 0 {
			m.goPanic("sync: negative WaitGroup counter")
		}
		m.release(th, &st.vc)
		return nil, true
	}
	// sync.Pool: an object that was Put is handed out again by the next Get (most recent first:
	// the order that exposes a retained alias soonest); an empty pool calls New. Put happens
	// before the Get that returns the object.
	pl := func(m *Machine, c *Cell) *poolSt {
		st := m.sync.pools[c]
		if st == nil {
			st = &poolSt{}
			m.sync.pools[c] = st
		}
		return st
	}
	reg("(*sync.Pool).Put", func(m *Machine, th *Thread, fn *ssa.Function, a []Value) (Value, bool) {
		if !m.schedGate(th, "Pool.Put") {
			return nil, false
		}
		st := pl(m, a[0].(*Cell))
		if iv, ok := a[1].(IfaceV); ok && iv.t == nil {
			return nil, true // Put(nil) is a no-op
		}
		st.items = append(st.items, a[1])
		m.release(th, &st.vc)
		return nil, true
	})
	reg("(*sync.Pool).Get", func(m *Machine, th *Thread, fn *ssa.Function, a []Value) (Value, bool) {
		if !m.schedGate(th, "Pool.Get") {
			return nil, false
		}
		c := a[0].(*Cell)
		st := pl(m, c)
		if n := len(st.items); n > 0 {
			v := st.items[n-1]
			st.items = st.items[:n-1]
			m.acquire(th, st.vc)
			return v, true
		}
		// the New field
		sv := c.v.(StructV)
		stt := fn.Signature.Recv().Type().(*types.Pointer).Elem().Underlying().(*types.Struct)
		for i := 0; i < stt.NumFields(); i++ {
			if stt.Field(i).Name() == "New" {
				nf := sv.f[i].v
				if cl, ok := nf.(*Closure); nf == nil || (ok && cl == nil) {
					return IfaceV{}, true
				}
				return m.callSync(th, nf, nil), true
			}
		}
		return IfaceV{}, true
	})
	reg("(*sync.WaitGroup).Add", func(m *Machine, th *Thread, fn *ssa.Function, a []Value) (Value, bool) {
		return wgAdd(m, th, a[0].(*Cell), int64(m.concreteInt(a[1], "WaitGroup delta")))
	})
	reg("(*sync.WaitGroup).Done", func(m *Machine, th *Thread, fn *ssa.Function, a []Value) (Value, bool) {
		return wgAdd(m, th, a[0].(*Cell), -1)
	})
	reg("(*sync.WaitGroup).Wait", func(m *Machine, th *Thread, fn *ssa.Function, a []Value) (Value, bool) {
		st := wg(m, a[0].(*Cell))
		if st.n > 0 {
			return m.block(th, "WaitGroup.Wait", func() bool { return st.n == 0 })
		}
		if !m.schedGate(th, "WaitGroup.Wait") {
			return nil, false
		}
		m.acquire(th, st.vc)
		return nil, true
	})
	nl := func(m *Machine, c *Cell) *notifySt {
		st := m.sync.notify[c]
		if st == nil {
			st = &notifySt{}
			m.sync.notify[c] = st
		}
		return st
	}
	reg("sync.runtime_notifyListAdd", func(m *Machine, th *Thread, fn *ssa.Function, a []Value) (Value, bool) {
		st := nl(m, a[0].(*Cell))
		if !m.schedGate(th, "notifyListAdd") {
			return nil, false
		}
		t := st.wait
		st.wait++
		return m.ts.Const(32, uint64(t)), true
	})
	reg("sync.runtime_notifyListWait", func(m *Machine, th *Thread, fn *ssa.Function, a []Value) (Value, bool) {
		st := nl(m, a[0].(*Cell))
		t := uint32(a[1].(*Term).val)
		if !(t < st.notify) {
			return m.block(th, "Cond.Wait", func() bool { return t < st.notify })
		}
		if !m.schedGate(th, "notifyListWait") {
			return nil, false
		}
		m.acquire(th, st.vc)
		return nil, true
	})
	reg("sync.runtime_notifyListNotifyOne", func(m *Machine, th *Thread, fn *ssa.Function, a []Value) (Value, bool) {
		st := nl(m, a[0].(*Cell))
		if !m.schedGate(th, "Signal") {
			return nil, false
		}
		m.release(th, &st.vc)
		if st.notify != st.wait {
			st.notify++
		}
		return nil, true
	})
	reg("sync.runtime_notifyListNotifyAll", func(m *Machine, th *Thread, fn *ssa.Function, a []Value) (Value, bool) {
		st := nl(m, a[0].(*Cell))
		if !m.schedGate(th, "Broadcast") {
			return nil, false
		}
		m.release(th, &st.vc)
		st.notify = st.wait
		return nil, true
	})
	reg("sync.runtime_notifyListCheck", intrNoop)
	reg("(*sync.copyChecker).check", intrNoop)
	reg("sync.fatal", func(m *Machine, th *Thread, fn *ssa.Function, a []Value) (Value, bool) {
		m.goPanic("fatal error: " + m.mustStr(a[0]))
		return nil, true
	})
	reg("sync.throw", func(m *Machine, th *Thread, fn *ssa.Function, a []Value) (Value, bool) {
		m.goPanic("fatal error: " + m.mustStr(a[0]))
		return nil, true
	})

	// ---------- sync/atomic ----------
	atomicOp := func(m *Machine, th *Thread, c *Cell) bool {
		if c == nil {
			m.goPanic("atomic op on nil pointer")
		}
		if !m.schedGate(th, "atomic") {
			return false
		}
		if m.raceOn {
			vc := m.sync.atomVC[c]
			th.vc = vclock(th.vc).join(vc)
			m.sync.atomVC[c] = vclock(th.vc).clone()
			m.tick(th)
		}
		return true
	}
	for _, ty := range []string{"Int32", "Int64", "Uint32", "Uint64", "Uintptr", "Pointer"} {
		ty := ty
		reg("sync/atomic.Load"+ty, func(m *Machine, th *Thread, fn *ssa.Function, a []Value) (Value, bool) {
			c := a[0].(*Cell)
			if !atomicOp(m, th, c) {
				return nil, false
			}
			return c.v, true
		})
		reg("sync/atomic.Store"+ty, func(m *Machine, th *Thread, fn *ssa.Function, a []Value) (Value, bool) {
			c := a[0].(*Cell)
			if !atomicOp(m, th, c) {
				return nil, false
			}
			c.v = a[1]
			return nil, true
		})
		reg("sync/atomic.Swap"+ty, func(m *Machine, th *Thread, fn *ssa.Function, a []Value) (Value, bool) {
			c := a[0].(*Cell)
			if !atomicOp(m, th, c) {
				return nil, false
			}
			old := c.v
			c.v = a[1]
			return old, true
		})
		reg("sync/atomic.CompareAndSwap"+ty, func(m *Machine, th *Thread, fn *ssa.Function, a []Value) (Value, bool) {
			c := a[0].(*Cell)
			if !atomicOp(m, th, c) {
				return nil, false
			}
			eq := m.equal(c.v, a[1])
			if m.branch(eq) {
				c.v = a[2]
				return m.ts.True, true
			}
			return m.ts.False, true
		})
		if ty != "Pointer" {
			reg("sync/atomic.Add"+ty, func(m *Machine, th *Thread, fn *ssa.Function, a []Value) (Value, bool) {
				c := a[0].(*Cell)
				if !atomicOp(m, th, c) {
					return nil, false
				}
				c.v = m.ts.Bin(OpAdd, c.v.(*Term), a[1].(*Term))
				return c.v, true
			})
			reg("sync/atomic.And"+ty, func(m *Machine, th *Thread, fn *ssa.Function, a []Value) (Value, bool) {
				c := a[0].(*Cell)
				if !atomicOp(m, th, c) {
					return nil, false
				}
				old := c.v
				c.v = m.ts.Bin(OpBAnd, c.v.(*Term), a[1].(*Term))
				return old, true
			})
			reg("sync/atomic.Or"+ty, func(m *Machine, th *Thread, fn *ssa.Function, a []Value) (Value, bool) {
				c := a[0].(*Cell)
				if !atomicOp(m, th, c) {
					return nil, false
				}
				old := c.v
				c.v = m.ts.Bin(OpBOr, c.v.(*Term), a[1].(*Term))
				return old, true
			})
		}
	}
	// atomic.Value keeps its interface value in field 0
	reg("(*sync/atomic.Value).Load", func(m *Machine, th *Thread, fn *ssa.Function, a []Value) (Value, bool) {
		c := a[0].(*Cell)
		if !atomicOp(m, th, c) {
			return nil, false
		}
		return c.v.(StructV).f[0].v, true
	})
	reg("(*sync/atomic.Value).Store", func(m *Machine, th *Thread, fn *ssa.Function, a []Value) (Value, bool) {
		c := a[0].(*Cell)
		if !atomicOp(m, th, c) {
			return nil, false
		}
		c.v.(StructV).f[0].v = a[1]
		return nil, true
	})
	reg("(*sync/atomic.Value).CompareAndSwap", func(m *Machine, th *Thread, fn *ssa.Function, a []Value) (Value, bool) {
		c := a[0].(*Cell)
		if !atomicOp(m, th, c) {
			return nil, false
		}
		f := c.v.(StructV).f[0]
		if m.branch(m.equal(f.v, a[1])) {
			f.v = a[2]
			return m.ts.True, true
		}
		return m.ts.False, true
	})

	// ---------- errors / fmt ----------
	reg("errors.Is", func(m *Machine, th *Thread, fn *ssa.Function, a []Value) (Value, bool) {
		return m.errorsIs(th, a[0].(IfaceV), a[1].(IfaceV)), true
	})
	reg("errors.As", func(m *Machine, th *Thread, fn *ssa.Function, a []Value) (Value, bool) {
		return m.errorsAs(th, a[0].(IfaceV), a[1].(IfaceV)), true
	})
	reg("(*errors.joinError).Error", func(m *Machine, th *Thread, fn *ssa.Function, a []Value) (Value, bool) {
		// the library builds the string with unsafe.String; messages are opaque here
		c := a[0].(*Cell)
		var parts []string
		for _, e := range c.v.(StructV).f[0].v.(SliceV).cells {
			parts = append(parts, m.fmtValue(th, e.v))
		}
		return strings.Join(parts, "\n"), true
	})
	reg("fmt.Errorf", func(m *Machine, th *Thread, fn *ssa.Function, a []Value) (Value, bool) {
		return m.fmtErrorf(th, m.mustStr(a[0]), a[1].(SliceV)), true
	})
	reg("fmt.Sprintf", func(m *Machine, th *Thread, fn *ssa.Function, a []Value) (Value, bool) {
		s, _ := m.sprintf(th, m.mustStr(a[0]), a[1].(SliceV))
		return s, true
	})
	reg("fmt.Sprint", func(m *Machine, th *Thread, fn *ssa.Function, a []Value) (Value, bool) {
		var parts []string
		for _, c := range a[0].(SliceV).cells {
			parts = append(parts, m.fmtValue(th, c.v))
		}
		return strings.Join(parts, " "), true
	})
	for _, n := range []string{"fmt.Println", "fmt.Printf", "fmt.Print", "fmt.Fprintf", "fmt.Fprintln", "fmt.Fprint"} {
		reg(n, intrNoop)
	}

	reg("context.WithValue", func(m *Machine, th *Thread, fn *ssa.Function, a []Value) (Value, bool) {
		parent, key := a[0].(IfaceV), a[1].(IfaceV)
		if parent.t == nil {
			m.goPanic("cannot create context from nil parent")
		}
		if key.t == nil {
			m.goPanic("nil key")
		}
		if !types.Comparable(key.t) {
			m.goPanic("key is not comparable")
		}
		t := m.p.pkgs["context"].Type("valueCtx").Type()
		c := &Cell{v: StructV{f: []*Cell{{v: parent}, {v: key}, {v: a[2]}}}}
		return IfaceV{t: types.NewPointer(t), v: c}, true
	})

	// ---------- natives on concrete data ----------
	reg("sort.Strings", func(m *Machine, th *Thread, fn *ssa.Function, a []Value) (Value, bool) {
		s := a[0].(SliceV)
		strs := make([]string, len(s.cells))
		for i, c := range s.cells {
			strs[i] = m.mustStr(c.v)
		}
		sort.Strings(strs)
		for i, c := range s.cells {
			c.v = strs[i]
		}
		return nil, true
	})
	reg("strings.Split", func(m *Machine, th *Thread, fn *ssa.Function, a []Value) (Value, bool) {
		parts := strings.Split(m.mustStr(a[0]), m.mustStr(a[1]))
		return m.strSlice(parts), true
	})
	reg("strings.Join", func(m *Machine, th *Thread, fn *ssa.Function, a []Value) (Value, bool) {
		s := a[0].(SliceV)
		strs := make([]string, len(s.cells))
		for i, c := range s.cells {
			strs[i] = m.mustStr(c.v)
		}
		return strings.Join(strs, m.mustStr(a[1])), true
	})
	reg("strings.EqualFold", func(m *Machine, th *Thread, fn *ssa.Function, a []Value) (Value, bool) {
		return m.ts.Bool(strings.EqualFold(m.mustStr(a[0]), m.mustStr(a[1]))), true
	})
	reg("strings.ToLower", func(m *Machine, th *Thread, fn *ssa.Function, a []Value) (Value, bool) {
		return strings.ToLower(m.mustStr(a[0])), true
	})
	reg("strings.HasPrefix", func(m *Machine, th *Thread, fn *ssa.Function, a []Value) (Value, bool) {
		return m.ts.Bool(strings.HasPrefix(m.mustStr(a[0]), m.mustStr(a[1]))), true
	})
	reg("strings.Contains", func(m *Machine, th *Thread, fn *ssa.Function, a []Value) (Value, bool) {
		return m.ts.Bool(strings.Contains(m.mustStr(a[0]), m.mustStr(a[1]))), true
	})
	reg("strings.Index", func(m *Machine, th *Thread, fn *ssa.Function, a []Value) (Value, bool) {
		return m.ts.Const(64, uint64(int64(strings.Index(m.mustStr(a[0]), m.mustStr(a[1]))))), true
	})
	reg("strings.IndexByte", func(m *Machine, th *Thread, fn *ssa.Function, a []Value) (Value, bool) {
		return m.ts.Const(64, uint64(int64(strings.IndexByte(m.mustStr(a[0]), byte(m.concreteInt(a[1], "byte")))))), true
	})
	reg("strings.LastIndex", func(m *Machine, th *Thread, fn *ssa.Function, a []Value) (Value, bool) {
		return m.ts.Const(64, uint64(int64(strings.LastIndex(m.mustStr(a[0]), m.mustStr(a[1]))))), true
	})
	reg("strings.TrimSpace", func(m *Machine, th *Thread, fn *ssa.Function, a []Value) (Value, bool) {
		return strings.TrimSpace(m.mustStr(a[0])), true
	})
	reg("path.Join", func(m *Machine, th *Thread, fn *ssa.Function, a []Value) (Value, bool) {
		s := a[0].(SliceV)
		strs := make([]string, len(s.cells))
		for i, c := range s.cells {
			strs[i] = m.mustStr(c.v)
		}
		return path.Join(strs...), true
	})
	reg("path.Base", func(m *Machine, th *Thread, fn *ssa.Function, a []Value) (Value, bool) {
		return path.Base(m.mustStr(a[0])), true
	})
	reg("path.Dir", func(m *Machine, th *Thread, fn *ssa.Function, a []Value) (Value, bool) {
		return path.Dir(m.mustStr(a[0])), true
	})
	reg("path.Clean", func(m *Machine, th *Thread, fn *ssa.Function, a []Value) (Value, bool) {
		return path.Clean(m.mustStr(a[0])), true
	})
	reg("strconv.Itoa", func(m *Machine, th *Thread, fn *ssa.Function, a []Value) (Value, bool) {
		return strconv.Itoa(m.concreteInt(a[0], "Itoa")), true
	})
	reg("strconv.Atoi", func(m *Machine, th *Thread, fn *ssa.Function, a []Value) (Value, bool) {
		v, err := strconv.Atoi(m.mustStr(a[0]))
		return TupleV{m.ts.Const(64, uint64(int64(v))), m.nativeError(err)}, true
	})
	reg("strconv.ParseUint", func(m *Machine, th *Thread, fn *ssa.Function, a []Value) (Value, bool) {
		v, err := strconv.ParseUint(m.mustStr(a[0]), m.concreteInt(a[1], "base"), m.concreteInt(a[2], "bits"))
		return TupleV{m.ts.Const(64, v), m.nativeError(err)}, true
	})
	reg("time.ParseDuration", func(m *Machine, th *Thread, fn *ssa.Function, a []Value) (Value, bool) {
		v, err := time.ParseDuration(m.mustStr(a[0]))
		return TupleV{m.ts.Const(64, uint64(int64(v))), m.nativeError(err)}, true
	})
	reg("time.After", func(m *Machine, th *Thread, fn *ssa.Function, a []Value) (Value, bool) {
		ch := &ChanV{id: m.nextID(), cap: 1, timer: true}
		if t := m.p.pkgs["time"]; t != nil {
			ch.elem = t.Type("Time").Type()
		}
		return ch, true
	})
	reg("time.Now", func(m *Machine, th *Thread, fn *ssa.Function, a []Value) (Value, bool) {
		return m.zeroTime(), true
	})
	reg("time.Since", func(m *Machine, th *Thread, fn *ssa.Function, a []Value) (Value, bool) {
		return m.ts.Const(64, 0), true
	})
	reg("time.Sleep", intrNoop)
	reg("runtime.GOMAXPROCS", func(m *Machine, th *Thread, fn *ssa.Function, a []Value) (Value, bool) {
		return m.ts.Const(64, 4), true
	})
	reg("runtime.Gosched", intrNoop)
	reg("runtime.KeepAlive", intrNoop)
	reg("runtime.SetFinalizer", intrNoop)
	reg("internal/race.Enable", intrNoop)
	reg("internal/race.Disable", intrNoop)
	reg("internal/race.Acquire", intrNoop)
	reg("internal/race.Release", intrNoop)
	reg("internal/race.ReleaseMerge", intrNoop)
	reg("internal/race.Read", intrNoop)
	reg("internal/race.Write", intrNoop)
	reg("internal/bytealg.IndexByte", func(m *Machine, th *Thread, fn *ssa.Function, a []Value) (Value, bool) {
		s := a[0].(SliceV)
		c := a[1].(*Term)
		for i, cell := range s.cells {
			eq := m.ts.Eq(cell.v.(*Term), c)
			if m.branch(eq) {
				return m.ts.Const(64, uint64(i)), true
			}
		}
		return m.ts.Const(64, ^uint64(0)), true
	})
	reg("internal/bytealg.IndexByteString", func(m *Machine, th *Thread, fn *ssa.Function, a []Value) (Value, bool) {
		return m.ts.Const(64, uint64(int64(strings.IndexByte(m.mustStr(a[0]), byte(m.concreteInt(a[1], "byte")))))), true
	})
	reg("internal/bytealg.MakeNoZero", func(m *Machine, th *Thread, fn *ssa.Function, a []Value) (Value, bool) {
		n := m.concreteInt(a[0], "MakeNoZero")
		return SliceV{cells: m.newCells(types.Typ[types.Uint8], n), nonnil: true}, true
	})
	reg("internal/bytealg.CountString", func(m *Machine, th *Thread, fn *ssa.Function, a []Value) (Value, bool) {
		return m.ts.Const(64, uint64(strings.Count(m.mustStr(a[0]), string([]byte{byte(m.concreteInt(a[1], "byte"))})))), true
	})
	reg("github.com/google/uuid.NewString", func(m *Machine, th *Thread, fn *ssa.Function, a []Value) (Value, bool) {
		m.uuidCount++
		return fmt.Sprintf("00000000-0000-4000-8000-%012d", m.uuidCount), true
	})
	reg("math/rand/v2.Uint64", func(m *Machine, th *Thread, fn *ssa.Function, a []Value) (Value, bool) {
		return m.ts.Const(64, 42), true
	})
	reg("(*math/rand/v2.Rand).Shuffle", func(m *Machine, th *Thread, fn *ssa.Function, a []Value) (Value, bool) {
		if m.raceOn {
			if c, ok := a[0].(*Cell); ok && c != nil {
				// the generator state is read and written by every call
				f0 := c.v.(StructV).f[0]
				markMon(f0, "rand.Rand")
				m.raceAccess(th, f0, true)
			}
		}
		n := m.concreteInt(a[1], "Shuffle n")
		swap := a[2]
		if m.raceOn {
			// under the race monitor the order of the candidates is irrelevant (every order performs
			// the same accesses): keep the identity permutation instead of forking n! ways
			return nil, true
		}
		// symbolic permutation: Fisher-Yates with Choice at every step
		for i := n - 1; i > 0; i-- {
			j := m.decideN(i+1, "shuffle")
			if j != i {
				m.callSync(th, swap, []Value{m.ts.Const(64, uint64(i)), m.ts.Const(64, uint64(j))})
			}
		}
		return nil, true
	})
	reg("github.com/samber/lo.Must", nil)
	delete(intrinsics, "github.com/samber/lo.Must")
}

func (m *Machine) strSlice(parts []string) Value {
	cells := make([]*Cell, len(parts))
	for i, p := range parts {
		cells[i] = &Cell{v: p}
	}
	return SliceV{cells: cells, nonnil: true}
}

// nativeError wraps a Go error produced by a native library call into an interpreted error value.
func (m *Machine) nativeError(err error) Value {
	if err == nil {
		return IfaceV{}
	}
	return m.newErrorString("native: " + err.Error())
}

// newErrorString builds a real *errors.errorString.
func (m *Machine) newErrorString(msg string) Value {
	pkg := m.p.pkgs["errors"]
	if pkg == nil {
		m.unsupported("errors package not loaded")
	}
	t := pkg.Type("errorString").Type()
	c := &Cell{v: StructV{f: []*Cell{{v: msg}}}}
	return IfaceV{t: types.NewPointer(t), v: c}
}

func (m *Machine) describeLazy(v Value) string {
	return m.describe(v, m.model, 0)
}

// ---------- errors.Is / As following the library algorithm ----------

func (m *Machine) errorsIs(th *Thread, err, target IfaceV) *Term {
	if err.t == nil || target.t == nil {
		return m.ts.Bool(err.t == nil && target.t == nil)
	}
	comparable := types.Comparable(target.t)
	return m.ts.Bool(m.isRec(th, err, target, comparable, 0))
}

func (m *Machine) isRec(th *Thread, err, target IfaceV, comparable bool, depth int) bool {
	if depth > 50 {
		m.unsupported("error chain too deep")
	}
	for {
		if err.t == nil {
			return false
		}
		if comparable && types.Identical(err.t, target.t) {
			eq := m.equal(err.v, target.v)
			if m.branch(eq) {
				return true
			}
		}
		if fn := m.lookupMethod(err.t, "Is"); fn != nil && isErrBoolSig(fn) {
			r := m.callSync(th, &Closure{fn: fn}, []Value{err.v, target}).(*Term)
			if m.branch(r) {
				return true
			}
		}
		if fn := m.lookupMethod(err.t, "Unwrap"); fn != nil {
			res := fn.Signature.Results()
			if res.Len() == 1 {
				if _, isSlice := res.At(0).Type().Underlying().(*types.Slice); isSlice {
					lst := m.callSync(th, &Closure{fn: fn}, []Value{err.v}).(SliceV)
					for _, c := range lst.cells {
						e := c.v.(IfaceV)
						if e.t == nil {
							continue
						}
						if m.isRec(th, e, target, comparable, depth+1) {
							return true
						}
					}
					return false
				}
				next := m.callSync(th, &Closure{fn: fn}, []Value{err.v}).(IfaceV)
				if next.t == nil {
					return false
				}
				err = next
				depth++
				continue
			}
		}
		return false
	}
}

func isErrBoolSig(fn *ssa.Function) bool {
	s := fn.Signature
	if s.Params().Len() != 1 || s.Results().Len() != 1 {
		return false
	}
	b, ok := s.Results().At(0).Type().Underlying().(*types.Basic)
	return ok && b.Kind() == types.Bool
}

func (m *Machine) errorsAs(th *Thread, err IfaceV, target IfaceV) *Term {
	if target.t == nil {
		m.goPanic("errors: target cannot be nil")
	}
	pt, ok := target.t.Underlying().(*types.Pointer)
	if !ok {
		m.goPanic("errors: target must be a non-nil pointer")
	}
	tc := target.v.(*Cell)
	if tc == nil {
		m.goPanic("errors: target must be a non-nil pointer")
	}
	elem := pt.Elem()
	return m.ts.Bool(m.asRec(th, err, elem, tc, 0))
}

func (m *Machine) asRec(th *Thread, err IfaceV, elem types.Type, tc *Cell, depth int) bool {
	if depth > 50 {
		m.unsupported("error chain too deep")
	}
	for {
		if err.t == nil {
			return false
		}
		if it, isI := elem.Underlying().(*types.Interface); isI {
			if types.Implements(err.t, it) {
				m.storeCell(tc, err)
				return true
			}
		} else if types.Identical(err.t, elem) {
			m.storeCell(tc, err.v)
			return true
		}
		if fn := m.lookupMethod(err.t, "As"); fn != nil && fn.Signature.Params().Len() == 1 {
			r := m.callSync(th, &Closure{fn: fn}, []Value{err.v, IfaceV{t: types.NewPointer(elem), v: tc}}).(*Term)
			if m.branch(r) {
				return true
			}
		}
		if fn := m.lookupMethod(err.t, "Unwrap"); fn != nil {
			res := fn.Signature.Results()
			if res.Len() == 1 {
				if _, isSlice := res.At(0).Type().Underlying().(*types.Slice); isSlice {
					lst := m.callSync(th, &Closure{fn: fn}, []Value{err.v}).(SliceV)
					for _, c := range lst.cells {
						e := c.v.(IfaceV)
						if e.t != nil && m.asRec(th, e, elem, tc, depth+1) {
							return true
						}
					}
					return false
				}
				next := m.callSync(th, &Closure{fn: fn}, []Value{err.v}).(IfaceV)
				if next.t == nil {
					return false
				}
				err = next
				depth++
				continue
			}
		}
		return false
	}
}

// ---------- fmt ----------

func (m *Machine) fmtValue(th *Thread, v Value) string {
	switch x := v.(type) {
	case IfaceV:
		if x.t == nil {
			return "<nil>"
		}
		if fn := m.lookupMethod(x.t, "Error"); fn != nil && fn.Signature.Params().Len() == 0 {
			if len(fn.Blocks) > 0 || m.p.info(fn).intr != nil {
				r := m.callSync(th, &Closure{fn: fn}, []Value{x.v})
				if s, ok := m.strOf(r); ok {
					return s
				}
				return "<sym>"
			}
		}
		if fn := m.lookupMethod(x.t, "String"); fn != nil && fn.Signature.Params().Len() == 0 && len(fn.Blocks) > 0 {
			if pk := fn.Pkg; pk != nil && strings.HasPrefix(pk.Pkg.Path(), m.p.modPath) {
				r := m.callSync(th, &Closure{fn: fn}, []Value{x.v})
				if s, ok := m.strOf(r); ok {
					return s
				}
			}
		}
		return m.fmtValue(th, x.v)
	case string:
		return x
	case *Term:
		if x.op == OpConst {
			if x.w == 0 {
				return fmt.Sprint(x.val != 0)
			}
			return fmt.Sprint(x.val)
		}
		return "<sym>"
	}
	return m.describe(v, nil, 0)
}

// sprintf: messages are opaque to every property; verbs are rendered best-effort. Returns the
// %w operands in order.
func (m *Machine) sprintf(th *Thread, format string, args SliceV) (string, []IfaceV) {
	var sb strings.Builder
	var wraps []IfaceV
	ai := 0
	for i := 0; i < len(format); i++ {
		c := format[i]
		if c != '%' {
			sb.WriteByte(c)
			continue
		}
		i++
		for i < len(format) && strings.IndexByte("+-# 0123456789.*", format[i]) >= 0 {
			i++
		}
		if i >= len(format) {
			break
		}
		verb := format[i]
		if verb == '%' {
			sb.WriteByte('%')
			continue
		}
		if ai >= len(args.cells) {
			sb.WriteString("%!" + string(verb) + "(MISSING)")
			continue
		}
		arg := args.cells[ai].v
		ai++
		if verb == 'w' {
			if iv, ok := arg.(IfaceV); ok {
				wraps = append(wraps, iv)
			}
		}
		sb.WriteString(m.fmtValue(th, arg))
	}
	return sb.String(), wraps
}

func (m *Machine) fmtErrorf(th *Thread, format string, args SliceV) Value {
	msg, wraps := m.sprintf(th, format, args)
	pkg := m.p.pkgs["fmt"]
	if pkg == nil {
		m.unsupported("fmt not loaded")
	}
	var real []IfaceV
	for _, w := range wraps {
		// fmt only wraps operands that implement error
		if w.t != nil && m.lookupMethod(w.t, "Error") != nil {
			real = append(real, w)
		}
	}
	switch len(real) {
	case 0:
		return m.newErrorString(msg)
	case 1:
		t := pkg.Type("wrapError").Type()
		c := &Cell{v: StructV{f: []*Cell{{v: msg}, {v: real[0]}}}}
		return IfaceV{t: types.NewPointer(t), v: c}
	default:
		t := pkg.Type("wrapErrors").Type()
		cells := make([]*Cell, len(real))
		for i, w := range real {
			cells[i] = &Cell{v: w}
		}
		c := &Cell{v: StructV{f: []*Cell{{v: msg}, {v: SliceV{cells: cells, nonnil: true}}}}}
		return IfaceV{t: types.NewPointer(t), v: c}
	}
}

// orderKeys applies the map-iteration-order policy.
func (m *Machine) orderKeys(mp *MapV) []any {
	keys := append([]any{}, mp.keys...)
	n := len(keys)
	if n < 2 {
		return keys
	}
	switch m.mapOrder {
	case 1: // reverse insertion order
		for i, j := 0, n-1; i < j; i, j = i+1, j-1 {
			keys[i], keys[j] = keys[j], keys[i]
		}
	case 2: // symbolic permutation: all n! for n <= 3, rotations + reversal beyond
		if n <= 3 {
			for i := n - 1; i > 0; i-- {
				j := m.decideN(i+1, "maporder")
				keys[i], keys[j] = keys[j], keys[i]
			}
		} else {
			d := m.decideN(n+1, "maporder")
			if d == n {
				for i, j := 0, n-1; i < j; i, j = i+1, j-1 {
					keys[i], keys[j] = keys[j], keys[i]
				}
			} else {
				keys = append(keys[d:], keys[:d]...)
			}
		}
	}
	return keys
}
