package main

import (
	"fmt"
	"os"
	"os/exec"
	"sort"
	"strings"
	"sync"
	"time"

	"golang.org/x/tools/go/ssa"
)

type Config struct {
	Repo         string
	Tier         string
	TierN        int
	Seed         int64
	Workers      int
	MaxPaths     int
	Budget       time.Duration
	SolverMs     int
	MaxSteps     int64
	ExtraPreempt int
	Solvers      []string
	Verbose      bool
	Race         bool
}

type workItem struct {
	harness *ssa.Function
	trail   []int
	model   map[string]uint64
}

type Explorer struct {
	cfg Config
	p   *Prog

	mu       sync.Mutex
	cond     *sync.Cond
	stack    []*workItem
	inflight int
	stop     bool
	stopWhy  string
	start    time.Time

	paths, done, infeasible, unsupportedN, budgetN, violN int
	nontrivial                                            int
	steps                                                 int64
	violations                                            map[string]*Violation
	violCount                                             map[string]int
	races                                                 map[string]*Violation
	reach                                                 map[string]int
	funcs                                                 map[*ssa.Function]bool
	samples                                               []map[string]any
	unsupp                                                map[string]int
	bounds                                                map[string]int
	perHarness                                            map[string]int
	obligations, dischSyn, dischSolver                    int
	queries, qsat, qunsat, qunknown, qerr                 int
	solverTime                                            time.Duration
	modelMismatch                                         int
	schedPoints                                           int64
	maxMutations                                          int
	crossFiles                                            []string
	forks                                                 map[string]int
	portUnknown                                           int
	cross                                                 []crossQuery
}

func NewExplorer(p *Prog, cfg Config) *Explorer {
	ex := &Explorer{cfg: cfg, p: p, violations: map[string]*Violation{}, violCount: map[string]int{}, races: map[string]*Violation{},
		reach: map[string]int{}, funcs: map[*ssa.Function]bool{}, unsupp: map[string]int{}, bounds: map[string]int{}, perHarness: map[string]int{}, forks: map[string]int{}}
	ex.cond = sync.NewCond(&ex.mu)
	return ex
}

type Worker struct {
	ex     *Explorer
	id     int
	ts     *TermStore
	solver *Portfolio

	obligations, dischargedSyntactic, dischargedSolver int
	unknownQueries, modelMismatch                      int
	cur                                                *workItem
	crossSeen, crossKept                               int
}

type crossQuery struct {
	id     string
	script string
}

func (w *Worker) push(m *Machine, alt int) { w.pushWithModel(m, alt, m.model) }

// sampleCross keeps a sample of solver-discharged obligations (as stand-alone scripts) for the
// second opinion: every kept query must also be unsat for the other solvers.
func (w *Worker) sampleCross(conj []*Term, id string) {
	w.crossSeen++
	ex := w.ex
	limit := 40
	if ex.cfg.TierN == 1 {
		limit = 300
	}
	// reservoir-like: keep the first few of every worker, then every 97th
	if w.crossKept >= limit/ex.cfg.Workers+1 {
		return
	}
	if w.crossKept > 3 && w.crossSeen%97 != 0 {
		return
	}
	w.crossKept++
	script := Standalone(conj)
	ex.mu.Lock()
	ex.cross = append(ex.cross, crossQuery{id: id, script: script})
	ex.mu.Unlock()
}

func (w *Worker) forkSite(site string) {
	w.ex.mu.Lock()
	w.ex.forks[site]++
	w.ex.mu.Unlock()
}

func (w *Worker) pushWithModel(m *Machine, alt int, model map[string]uint64) {
	tr := make([]int, m.pos+1)
	copy(tr, m.trail[:m.pos])
	tr[m.pos] = alt
	it := &workItem{harness: w.cur.harness, trail: tr, model: model}
	ex := w.ex
	ex.mu.Lock()
	ex.stack = append(ex.stack, it)
	ex.mu.Unlock()
	ex.cond.Signal()
}

func (w *Worker) report(v *Violation) {
	ex := w.ex
	ex.mu.Lock()
	defer ex.mu.Unlock()
	key := v.Harness + "|" + v.Kind + "|" + v.ID
	if v.Kind == "panic" || v.Kind == "deadlock" {
		key += "|" + firstRepoLoc(v.Where)
	}
	ex.violCount[key]++
	if old, ok := ex.violations[key]; !ok || len(v.Trail) < len(old.Trail) {
		ex.violations[key] = v
	}
}

func firstRepoLoc(where string) string {
	for _, part := range strings.Split(where, " <- ") {
		if i := strings.LastIndex(part, " "); i >= 0 && !strings.Contains(part, "zz_verif") && strings.Contains(part[i:], ".go:") {
			return part[i+1:]
		}
	}
	return ""
}

func (w *Worker) reportRaceKind(m *Machine, kind, key, msg string) {
	ex := w.ex
	ex.mu.Lock()
	defer ex.mu.Unlock()
	ex.violCount[kind+"|"+key]++
	if _, ok := ex.races[kind+key]; !ok {
		ex.races[kind+key] = &Violation{Kind: kind, ID: key, Msg: msg, Trail: append([]int{}, m.trail[:m.pos]...), Model: m.model, Harness: m.harness, Key: key}
	}
}

func (w *Worker) reportRace(m *Machine, key, msg string) {
	ex := w.ex
	ex.mu.Lock()
	defer ex.mu.Unlock()
	ex.violCount["race|"+key]++
	if _, ok := ex.races[key]; !ok {
		ex.races[key] = &Violation{Kind: "race", ID: key, Msg: msg, Trail: append([]int{}, m.trail[:m.pos]...), Model: m.model, Harness: m.harness, Key: key}
	}
}

func (ex *Explorer) Run(harnesses []*ssa.Function) {
	ex.start = time.Now()
	for i := len(harnesses) - 1; i >= 0; i-- {
		ex.stack = append(ex.stack, &workItem{harness: harnesses[i]})
	}
	doneCh := make(chan struct{})
	if ex.cfg.Verbose {
		go func() {
			tk := time.NewTicker(10 * time.Second)
			defer tk.Stop()
			for {
				select {
				case <-doneCh:
					return
				case <-tk.C:
					ex.mu.Lock()
					fmt.Fprintf(os.Stderr, "[%.0fs] paths=%d done=%d infeasible=%d viol=%d inconcl=%d queue=%d steps=%d\n", time.Since(ex.start).Seconds(), ex.paths, ex.done, ex.infeasible, ex.violN, ex.unsupportedN+ex.budgetN, len(ex.stack), ex.steps)
					ex.mu.Unlock()
				}
			}
		}()
	}
	defer close(doneCh)
	var wg sync.WaitGroup
	for i := 0; i < ex.cfg.Workers; i++ {
		wg.Add(1)
		go func(id int) {
			defer wg.Done()
			w := &Worker{ex: ex, id: id, ts: NewTermStore(), solver: NewPortfolio(ex.cfg.SolverMs, ex.cfg.Solvers)}
			defer w.solver.Close()
			w.loop()
			q, s, u, k, e, t := w.solver.Stats()
			ex.mu.Lock()
			ex.queries += q
			ex.qsat += s
			ex.qunsat += u
			ex.qunknown += k
			ex.qerr += e
			ex.solverTime += t
			ex.obligations += w.obligations
			ex.dischSyn += w.dischargedSyntactic
			ex.dischSolver += w.dischargedSolver
			ex.modelMismatch += w.modelMismatch
			ex.portUnknown += w.unknownQueries
			ex.mu.Unlock()
		}(i)
	}
	wg.Wait()
}

func (w *Worker) loop() {
	ex := w.ex
	for {
		ex.mu.Lock()
		for len(ex.stack) == 0 && ex.inflight > 0 && !ex.stop {
			ex.cond.Wait()
		}
		if ex.stop || len(ex.stack) == 0 {
			ex.mu.Unlock()
			ex.cond.Broadcast()
			return
		}
		it := ex.stack[len(ex.stack)-1]
		ex.stack = ex.stack[:len(ex.stack)-1]
		ex.inflight++
		ex.paths++
		if ex.cfg.MaxPaths > 0 && ex.paths > ex.cfg.MaxPaths && !ex.stop {
			ex.stop = true
			ex.stopWhy = fmt.Sprintf("path limit %d reached", ex.cfg.MaxPaths)
		}
		if ex.cfg.Budget > 0 && time.Since(ex.start) > ex.cfg.Budget && !ex.stop {
			ex.stop = true
			ex.stopWhy = fmt.Sprintf("time budget %s reached", ex.cfg.Budget)
		}
		ex.mu.Unlock()

		w.cur = it
		m, end := w.runPath(it)

		ex.mu.Lock()
		ex.inflight--
		ex.steps += m.steps
		ex.schedPoints += int64(m.schedPoints)
		if m.mutations > ex.maxMutations {
			ex.maxMutations = m.mutations
		}
		for f := range m.funcsSeen {
			ex.funcs[f] = true
		}
		switch end.kind {
		case "done":
			ex.done++
			ex.perHarness[m.harness]++
			for l := range m.reached {
				ex.reach[l]++
			}
			if m.nontrivial {
				ex.nontrivial++
			}
			if len(ex.samples) < 6 || (ex.done%97 == 0 && len(ex.samples) < 12) {
				ex.samples = append(ex.samples, m.sample())
			}
		case "infeasible":
			ex.infeasible++
		case "violation":
			ex.violN++
		case "budget":
			ex.budgetN++
			ex.unsupp["budget: "+end.msg]++
		default:
			ex.unsupportedN++
			ex.unsupp[end.msg]++
		}
		if m.unknowns > 0 {
			ex.unsupp["solver unknown on a feasibility query (both sides kept)"] += 0
		}
		ex.mu.Unlock()
		ex.cond.Broadcast()
	}
}

func (m *Machine) sample() map[string]any {
	s := map[string]any{"harness": m.harness, "decisions": fmt.Sprint(m.trail), "labels": m.labels}
	if m.model != nil {
		s["witness_model"] = sortedModel(m.model)
	}
	if len(m.observes) > 0 {
		obs := m.observes
		if len(obs) > 12 {
			obs = obs[:12]
		}
		s["observations"] = obs
	}
	s["path_condition_size"] = len(m.pc)
	return s
}

func (w *Worker) newMachine(it *workItem) *Machine {
	m := &Machine{w: w, p: w.ex.p, ts: w.ts, globals: map[*ssa.Global]*Cell{}, trail: it.trail, nameCount: map[string]int{},
		maxSteps: w.ex.cfg.MaxSteps, sync: newSyncState(), reached: map[string]bool{}, funcsSeen: map[*ssa.Function]bool{},
		harness: it.harness.String(), maxPreempt: w.ex.cfg.ExtraPreempt, raceOn: w.ex.cfg.Race}
	return m
}

func (w *Worker) runPath(it *workItem) (m *Machine, end pathEnd) {
	m = w.newMachine(it)
	// the model handed over with the item satisfies the path condition at the end of its trail;
	// it becomes valid once the trail has been replayed
	m.pendingModel = it.model
	end = m.run(it.harness)
	return
}

func (m *Machine) run(harness *ssa.Function) (end pathEnd) {
	defer func() {
		if r := recover(); r != nil {
			if pe, ok := r.(pathEnd); ok {
				end = pe
				return
			}
			if _, ok := r.(crashSig); ok {
				end = pathEnd{"unsupported", "crash signal escaped"}
				return
			}
			end = pathEnd{"unsupported", fmt.Sprintf("engine panic: %v at %s", r, m.where())}
			if m.w.ex.cfg.Verbose {
				fmt.Fprintln(os.Stderr, "ENGINE PANIC at", m.where())
				panic(r)
			}
		}
	}()
	if len(m.trail) == 0 {
		m.model = m.pendingModel
		m.pendingModel = nil
	}
	main := m.newThread()
	m.cur = main
	m.tick(main)
	// package initialisers of the repository (and the allow-listed library packages)
	planted := false
	for _, pkg := range m.p.initPkgs {
		if !planted && strings.HasPrefix(pkg.Pkg.Path(), m.p.modPath) {
			// library globals the repository's initialisers copy (os.ErrNotExist, ...)
			m.plantGlobals()
			planted = true
		}
		if init := pkg.Func("init"); init != nil && len(init.Blocks) > 0 {
			m.callSync(main, &Closure{fn: init}, nil)
		}
	}
	if !planted {
		m.plantGlobals()
	}
	m.initDone = true
	m.funcsSeen = map[*ssa.Function]bool{}
	if m.selfTestArg {
		// a Test function: its *testing.T argument is an opaque non-nil pointer
		m.pushFrame(main, harness, nil, []Value{&Cell{v: StructV{}}}, -1)
	} else {
		m.pushFrame(main, harness, nil, nil, -1)
	}
	m.runLoop()
	return pathEnd{"done", ""}
}

// adoptPending: called when the replayed prefix is exhausted
func (m *Machine) adoptPending() {
	if m.pendingModel != nil {
		m.model = m.pendingModel
		m.pendingModel = nil
	}
}

// ---------- reporting helpers ----------

func (ex *Explorer) sortedUnsupported() []string {
	var out []string
	for k, v := range ex.unsupp {
		out = append(out, fmt.Sprintf("%s (x%d)", k, v))
	}
	sort.Strings(out)
	return out
}

// crossCheck re-decides the sampled unsat queries with independent solver processes.
func (ex *Explorer) crossCheck() map[string]any {
	res := map[string]any{"sampled": len(ex.cross)}
	if len(ex.cross) == 0 {
		return res
	}
	dir, err := os.MkdirTemp("", "gosym-cross")
	if err != nil {
		return res
	}
	defer os.RemoveAll(dir)
	solvers := [][]string{{"z3", "-T:20"}, {"z3-new", "-T:20"}, {"cvc5", "--tlimit=20000"}}
	agree, disagree, unknown := map[string]int{}, map[string]int{}, map[string]int{}
	var bad []string
	type job struct {
		i int
		s []string
	}
	jobs := make(chan job, len(ex.cross)*len(solvers))
	var mu sync.Mutex
	var wg sync.WaitGroup
	for i, q := range ex.cross {
		os.WriteFile(fmt.Sprintf("%s/q%d.smt2", dir, i), []byte(q.script), 0o644)
		for _, s := range solvers {
			jobs <- job{i, s}
		}
	}
	close(jobs)
	for k := 0; k < ex.cfg.Workers; k++ {
		wg.Add(1)
		go func() {
			defer wg.Done()
			for j := range jobs {
				args := append(append([]string{}, j.s[1:]...), fmt.Sprintf("%s/q%d.smt2", dir, j.i))
				out, _ := exec.Command(j.s[0], args...).CombinedOutput()
				ans := strings.TrimSpace(string(out))
				mu.Lock()
				switch {
				case strings.HasPrefix(ans, "unsat"):
					agree[j.s[0]]++
				case strings.HasPrefix(ans, "sat"):
					disagree[j.s[0]]++
					bad = append(bad, ex.cross[j.i].id+" ("+j.s[0]+")")
				default:
					unknown[j.s[0]]++
				}
				mu.Unlock()
			}
		}()
	}
	wg.Wait()
	res["unsat_confirmed_by"] = agree
	res["disagreements"] = disagree
	res["undecided_within_20s"] = unknown
	if len(bad) > 0 {
		res["disagreeing_obligations"] = bad
	}
	return res
}

func (ex *Explorer) topForks(n int) []string {
	type kv struct {
		k string
		v int
	}
	var l []kv
	for k, v := range ex.forks {
		l = append(l, kv{k, v})
	}
	sort.Slice(l, func(i, j int) bool { return l[i].v > l[j].v || (l[i].v == l[j].v && l[i].k < l[j].k) })
	var out []string
	for i, x := range l {
		if i >= n {
			break
		}
		out = append(out, fmt.Sprintf("%s: %d", x.k, x.v))
	}
	return out
}

func (ex *Explorer) funcList() []string {
	var out []string
	for f := range ex.funcs {
		pos := ex.p.prog.Fset.Position(f.Pos())
		name := f.String()
		if pos.IsValid() {
			name += " (" + shortFile(pos.Filename) + fmt.Sprintf(":%d)", pos.Line)
		}
		out = append(out, name)
	}
	sort.Strings(out)
	return out
}
