package main

import (
	"fmt"
	"go/types"

	"golang.org/x/tools/go/ssa"
)

func (m *Machine) callBuiltin(th *Thread, b *ssa.Builtin, args []Value, caller *Frame) Value {
	ts := m.ts
	switch b.Name() {
	case "len":
		switch a := args[0].(type) {
		case string:
			return ts.Const(64, uint64(len(a)))
		case *SymStr:
			return ts.Const(64, uint64(len(a.b)))
		case SliceV:
			if a.symLen != nil {
				return a.symLen
			}
			return ts.Const(64, uint64(len(a.cells)))
		case ArrayV:
			return ts.Const(64, uint64(len(a.e)))
		case *Cell:
			if a == nil {
				m.goPanic("len of nil array pointer")
			}
			return ts.Const(64, uint64(len(a.v.(ArrayV).e)))
		case *MapV:
			if a != nil && a.sh != nil {
				m.raceAccess(th, a.sh, false)
			}
			return ts.Const(64, uint64(a.length()))
		case *ChanV:
			if a == nil {
				return ts.Const(64, 0)
			}
			return ts.Const(64, uint64(len(a.buf)))
		}
	case "cap":
		switch a := args[0].(type) {
		case SliceV:
			return ts.Const(64, uint64(cap(a.cells)))
		case ArrayV:
			return ts.Const(64, uint64(len(a.e)))
		case *ChanV:
			if a == nil {
				return ts.Const(64, 0)
			}
			return ts.Const(64, uint64(a.cap))
		case *Cell:
			return ts.Const(64, uint64(len(a.v.(ArrayV).e)))
		}
	case "append":
		s := args[0].(SliceV)
		var add []Value
		switch a := args[1].(type) {
		case SliceV:
			add = make([]Value, len(a.cells))
			for i, c := range a.cells {
				add[i] = c.v
			}
		case string, *SymStr:
			sym := m.toSym(a)
			add = make([]Value, len(sym.b))
			for i, t := range sym.b {
				add[i] = t
			}
		default:
			m.unsupported(fmt.Sprintf("append of %T", args[1]))
		}
		if len(add) == 0 {
			return s
		}
		n := len(s.cells) + len(add)
		var cells []*Cell
		if n <= cap(s.cells) {
			cells = s.cells[:n]
		} else {
			old := cap(s.cells)
			nc := old * 2
			if old >= 256 {
				nc = old + (old+768)/4
			}
			if nc < n {
				nc = n
			}
			cells = make([]*Cell, n, nc)
			copy(cells, s.cells)
			full := cells[:nc]
			et := b.Type().(*types.Signature).Params().At(0).Type().Underlying().(*types.Slice).Elem()
			monNew := m.raceOn && caller != nil && caller.info.monitor
			for i := len(s.cells); i < nc; i++ {
				if i < n {
					full[i] = &Cell{mon: monNew}
				} else {
					full[i] = &Cell{v: m.zero(et), mon: monNew}
				}
			}
			// cells below len(s.cells) are shared with the old array only by identity of the
			// *Cell; Go copies them: make fresh cells so that old and new arrays are independent
			for i := 0; i < len(s.cells); i++ {
				if s.cells[i].mon {
					m.raceAccess(th, s.cells[i], false)
				}
				full[i] = &Cell{v: s.cells[i].v, mon: monNew}
			}
		}
		for i, v := range add {
			c := cells[len(s.cells)+i]
			if c.mon {
				m.raceAccess(th, c, true)
			}
			c.v = copyValue(v)
		}
		return SliceV{cells: cells, nonnil: true}
	case "copy":
		dst := args[0].(SliceV)
		var n int
		switch src := args[1].(type) {
		case SliceV:
			n = min(len(dst.cells), len(src.cells))
			if n > 0 && &dst.cells[0] != &src.cells[0] {
				// overlapping copies (memmove semantics)
				tmp := make([]Value, n)
				for i := 0; i < n; i++ {
					if src.cells[i].mon {
						m.raceAccess(th, src.cells[i], false)
					}
					tmp[i] = src.cells[i].v
				}
				for i := 0; i < n; i++ {
					if dst.cells[i].mon {
						m.raceAccess(th, dst.cells[i], true)
					}
					dst.cells[i].v = copyValue(tmp[i])
				}
			}
		case string, *SymStr:
			sym := m.toSym(src)
			n = min(len(dst.cells), len(sym.b))
			for i := 0; i < n; i++ {
				if dst.cells[i].mon {
					m.raceAccess(th, dst.cells[i], true)
				}
				dst.cells[i].v = sym.b[i]
			}
		default:
			m.unsupported(fmt.Sprintf("copy from %T", args[1]))
		}
		return ts.Const(64, uint64(n))
	case "delete":
		mp := args[0].(*MapV)
		if mp != nil && mp.sh != nil {
			m.raceAccess(th, mp.sh, true)
		}
		mp.del(m.hashKey(args[1]))
		return nil
	case "clear":
		switch a := args[0].(type) {
		case *MapV:
			if a != nil {
				if a.sh != nil {
					m.raceAccess(th, a.sh, true)
				}
				a.m = map[any]*mapEntry{}
				a.keys = nil
			}
		case SliceV:
			if len(a.cells) > 0 {
				et := b.Type().(*types.Signature).Params().At(0).Type().Underlying().(*types.Slice).Elem()
				for _, c := range a.cells {
					c.v = m.zero(et)
				}
			}
		}
		return nil
	case "close":
		m.chanClose(th, args[0].(*ChanV))
		return nil
	case "recover":
		if caller == nil {
			caller = th.top()
		}
		if caller.isDefer && th.panic != nil && len(th.frames) >= 2 && th.frames[len(th.frames)-2].unwinding && th.top() == caller {
			v := th.panic.val
			th.panic = nil
			return v
		}
		return IfaceV{}
	case "print", "println":
		return nil
	case "min", "max":
		r := args[0]
		for _, a := range args[1:] {
			switch x := r.(type) {
			case *Term:
				y := a.(*Term)
				_, signed, _ := intWidth(b.Type().(*types.Signature).Params().At(0).Type())
				p, q := y, x // min: take y when y < x
				if b.Name() == "max" {
					p, q = x, y // max: take y when x < y
				}
				var lt *Term
				if signed {
					lt = ts.Bin(OpSlt, p, q)
				} else {
					lt = ts.Bin(OpUlt, p, q)
				}
				r = ts.Ite(lt, y, x)
			case string:
				y := m.mustStr(a)
				if (b.Name() == "min" && y < x) || (b.Name() == "max" && y > x) {
					r = y
				}
			case FloatV:
				y := a.(FloatV)
				if (b.Name() == "min" && y < x) || (b.Name() == "max" && y > x) {
					r = y
				}
			default:
				m.unsupported("min/max on " + fmt.Sprintf("%T", r))
			}
		}
		return r
	case "ssa:wrapnilchk":
		if p, ok := args[0].(*Cell); ok && p == nil {
			m.goPanic("value method called using nil pointer")
		}
		return args[0]
	case "panic":
		panic(goPanicSig{args[0]})
	}
	m.unsupported("builtin " + b.Name() + fmt.Sprintf(" on %T", args[0]))
	return nil
}
