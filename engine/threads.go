package main

import (
	"fmt"
	"go/types"
	"sort"
	"strings"

	"golang.org/x/tools/go/ssa"
)

// ---------- synchronisation objects (engine intrinsics) ----------

type vclock []int

func (a vclock) join(b vclock) vclock {
	if len(b) > len(a) {
		a = append(a, make([]int, len(b)-len(a))...)
	}
	for i, x := range b {
		if x > a[i] {
			a[i] = x
		}
	}
	return a
}

func (a vclock) clone() vclock { return append(vclock{}, a...) }

type mutexSt struct {
	locked bool
	owner  int
	vc     vclock
}
type rwSt struct {
	writer  bool
	readers int
	pending map[int]bool // threads blocked in Lock: Go's RWMutex holds new readers back behind a waiting writer
	vcW     vclock // released by writers
	vcR     vclock // released by readers
}
type wgSt struct {
	n  int64
	vc vclock
}
type notifySt struct {
	wait, notify uint32
	vc           vclock
}

type poolSt struct {
	items []Value
	vc    vclock
}

type syncState struct {
	pools  map[*Cell]*poolSt
	mutex  map[*Cell]*mutexSt
	rw     map[*Cell]*rwSt
	wg     map[*Cell]*wgSt
	notify map[*Cell]*notifySt
	atomVC map[*Cell]vclock
	exitVC vclock
	held   map[int][]*Cell          // locks currently held per thread, in acquisition order
	edges  map[*Cell]map[*Cell]string // lock-order graph: held -> acquired, with the place it was first seen
	names  map[*Cell]string
}

func newSyncState() *syncState {
	return &syncState{pools: map[*Cell]*poolSt{}, mutex: map[*Cell]*mutexSt{}, rw: map[*Cell]*rwSt{}, wg: map[*Cell]*wgSt{}, notify: map[*Cell]*notifySt{}, atomVC: map[*Cell]vclock{}, held: map[int][]*Cell{}, edges: map[*Cell]map[*Cell]string{}, names: map[*Cell]string{}}
}

func (s *syncState) onThreadExit(m *Machine, th *Thread) {
	s.exitVC = s.exitVC.join(th.vc)
}

func (m *Machine) tick(th *Thread) {
	for len(th.vc) <= th.id {
		th.vc = append(th.vc, 0)
	}
	th.vc[th.id]++
}

func (m *Machine) acquire(th *Thread, vc vclock) {
	if m.raceOn {
		th.vc = vclock(th.vc).join(vc)
	}
}

func (m *Machine) release(th *Thread, dst *vclock) {
	if m.raceOn {
		*dst = (*dst).join(th.vc)
		m.tick(th)
	}
}

func (m *Machine) block(th *Thread, on string, can func() bool) (Value, bool) {
	th.state = stBlocked
	th.blockedOn = on
	th.canRun = can
	return nil, false
}

// schedGate: a scheduling point. Returns true if th may perform its operation now.
func (m *Machine) schedGate(th *Thread, what string) bool {
	if len(m.threads) == 1 || th.syncDepth > 0 {
		return true
	}
	if th.passedSched {
		return true
	}
	if th.atomicDepth > 0 && len(th.frames) > 0 && th.top().info.atomic {
		// inside a library call that is executed as one atomic step (reduction (a)): only its
		// first synchronisation operation is a scheduling point. Code the library calls back
		// into (e.g. io.Copy -> Read of the repository) is not part of the atomic step.
		if th.atomicGate {
			return true
		}
		th.atomicGate = true
	}
	th.passedSched = true
	m.schedPoints++
	if m.preemptions >= m.maxPreempt {
		return true
	}
	var others []*Thread
	for _, o := range m.threads {
		if o != th && m.enabled(o) {
			others = append(others, o)
		}
	}
	if len(others) == 0 {
		return true
	}
	d := m.decideN(1+len(others), "sched")
	if d == 0 {
		return true
	}
	m.preemptions++
	m.cur = others[d-1]
	m.cur.state = stRunnable
	return false
}

func (m *Machine) enabled(th *Thread) bool {
	switch th.state {
	case stRunnable:
		return true
	case stBlocked:
		return th.canRun != nil && th.canRun()
	}
	return false
}

// pickNext chooses a thread when the current one cannot continue (free switch).
func (m *Machine) pickNext() *Thread {
	var cands []*Thread
	for _, o := range m.threads {
		if !o.lowPrio && m.enabled(o) {
			cands = append(cands, o)
		}
	}
	if len(cands) == 0 {
		for _, o := range m.threads {
			if o.lowPrio && m.enabled(o) {
				cands = append(cands, o)
			}
		}
	}
	if len(cands) == 0 {
		return nil
	}
	d := 0
	if len(cands) > 1 {
		d = m.decideN(len(cands), "switch")
	}
	cands[d].state = stRunnable
	return cands[d]
}

func (m *Machine) spawn(parent *Thread, tgt callTarget, args []Value) {
	th := m.newThread()
	if m.raceOn {
		m.tick(parent)
		th.vc = vclock(parent.vc).clone()
		m.tick(th)
	}
	if tgt.builtin != nil {
		m.unsupported("go builtin")
	}
	fi := m.p.info(tgt.fn)
	if fi.intr != nil {
		m.unsupported("go intrinsic " + fi.name)
	}
	fn, binds := tgt.fn, tgt.binds
	if fi.redirect != nil && (fi.rmode == "" || m.modes[fi.rmode]) {
		fn, binds = fi.redirect, nil
	}
	m.pushFrame(th, fn, binds, args, -1)
	if m.spawnFork && m.maxPreempt > 0 {
		// the new goroutine may run first: a switch to it right at its creation is not a
		// preemption (nd.SpawnRunsFirst; otherwise only "creator stops half-way, the new one
		// runs to completion" fits into a bound of one preemption, never the reverse)
		if m.decideN(2, "spawn") == 1 {
			m.cur = th
		}
	}
}

// runLoop drives all threads until the main thread finishes.
func (m *Machine) runLoop() {
	main := m.threads[0]
	for main.state != stDone {
		th := m.cur
		if th == nil || th.state != stRunnable {
			th = m.pickNext()
			if th == nil {
				var desc []string
				for _, o := range m.threads {
					if o.state == stBlocked {
						desc = append(desc, fmt.Sprintf("T%d blocked on %s at %s", o.id, o.blockedOn, m.whereOf(o)))
					}
				}
				m.cur = main
				m.obligation(m.ts.False, "deadlock", "deadlock", "no runnable thread: "+strings.Join(desc, "; "))
				return
			}
			m.cur = th
		}
		m.stepThread(th)
	}
}

func (m *Machine) whereOf(th *Thread) string {
	old := m.cur
	m.cur = th
	w := m.where()
	m.cur = old
	return w
}

// ---------- channels ----------

type ChanV struct {
	id      int
	cap     int
	buf     []Value
	closed  bool
	timer   bool
	fired   bool
	vc      vclock
	waiters int // receivers currently blocked on this channel
	elem    types.Type
}


func (m *Machine) nextID() int {
	m.ids++
	return m.ids
}

func (m *Machine) recvReady(ch *ChanV) bool {
	if ch == nil {
		return false
	}
	return len(ch.buf) > 0 || ch.closed || (ch.timer && !ch.fired)
}

func (m *Machine) sendReady(ch *ChanV) bool {
	if ch == nil {
		return false
	}
	if ch.closed {
		return true // will panic
	}
	if ch.cap == 0 {
		return len(ch.buf) < ch.waiters
	}
	return len(ch.buf) < ch.cap
}

func (m *Machine) chanRecv(th *Thread, ch *ChanV) (Value, bool, bool) {
	if !m.recvReady(ch) {
		if ch != nil {
			ch.waiters++
		}
		th.state = stBlocked
		th.blockedOn = "chan receive"
		th.canRun = func() bool {
			if m.recvReady(ch) {
				ch.waiters--
				return true
			}
			return false
		}
		return nil, false, false
	}
	if !m.schedGateOp(th) {
		return nil, false, false
	}
	v, ok := m.doRecv(th, ch)
	return v, ok, true
}

// schedGateOp is the gate used by channel instructions (retry protocol identical to calls)
func (m *Machine) schedGateOp(th *Thread) bool { return m.schedGate(th, "chan") }

func (m *Machine) doRecv(th *Thread, ch *ChanV) (Value, bool) {
	if len(ch.buf) > 0 {
		v := ch.buf[0]
		ch.buf = ch.buf[1:]
		m.acquire(th, ch.vc)
		return v, true
	}
	if ch.timer && !ch.fired {
		ch.fired = true
		return m.zeroTime(), true
	}
	m.acquire(th, ch.vc)
	return m.chanZero(ch), false
}

func (m *Machine) chanZero(ch *ChanV) Value {
	if ch.elem != nil {
		return m.zero(ch.elem)
	}
	return nil
}

func (m *Machine) zeroTime() Value {
	if t := m.p.pkgs["time"]; t != nil {
		return m.zero(t.Type("Time").Type())
	}
	return nil
}

func (m *Machine) chanSend(th *Thread, ch *ChanV, v Value) bool {
	if ch == nil {
		m.block(th, "send on nil chan", func() bool { return false })
		return false
	}
	if !m.sendReady(ch) {
		m.block(th, "chan send", func() bool { return m.sendReady(ch) })
		return false
	}
	if !m.schedGateOp(th) {
		return false
	}
	if ch.closed {
		m.goPanic("send on closed channel")
	}
	m.release(th, &ch.vc)
	ch.buf = append(ch.buf, v)
	return true
}

func (m *Machine) chanClose(th *Thread, ch *ChanV) {
	if ch == nil {
		m.goPanic("close of nil channel")
	}
	if ch.closed {
		m.goPanic("close of closed channel")
	}
	m.release(th, &ch.vc)
	ch.closed = true
}


func (m *Machine) execSelect(th *Thread, fr *Frame, i *ssa.Select) {
	ts := m.ts
	type st struct {
		ch   *ChanV
		send bool
		val  Value
	}
	states := make([]st, len(i.States))
	var ready []int
	for k, s := range i.States {
		ch, _ := m.operand(fr, s.Chan).(*ChanV)
		states[k] = st{ch: ch, send: s.Dir == types.SendOnly}
		if states[k].send {
			states[k].val = m.operand(fr, s.Send)
			if m.sendReady(ch) {
				ready = append(ready, k)
			}
		} else if m.recvReady(ch) {
			ready = append(ready, k)
		}
	}
	result := func(idx int, recvOK bool, recvVal Value) {
		tt := i.Type().(*types.Tuple)
		tv := make(TupleV, tt.Len())
		tv[0] = ts.Const(64, uint64(int64(idx)))
		tv[1] = ts.Bool(recvOK)
		pos := 2
		for k, s := range i.States {
			if s.Dir == types.RecvOnly {
				if k == idx {
					tv[pos] = recvVal
				} else {
					tv[pos] = m.zero(tt.At(pos).Type())
				}
				pos++
			}
		}
		m.setReg(fr, i, tv)
		th.passedSched = false
		fr.pc++
	}
	if len(ready) == 0 {
		if !i.Blocking {
			if !m.schedGate(th, "select") {
				return
			}
			result(-1, false, nil)
			return
		}
		for _, s := range states {
			if !s.send && s.ch != nil {
				s.ch.waiters++
			}
		}
		th.state = stBlocked
		th.blockedOn = "select"
		th.canRun = func() bool {
			for _, s := range states {
				if (s.send && m.sendReady(s.ch)) || (!s.send && m.recvReady(s.ch)) {
					for _, s2 := range states {
						if !s2.send && s2.ch != nil {
							s2.ch.waiters--
						}
					}
					return true
				}
			}
			return false
		}
		return
	}
	if !m.schedGate(th, "select") {
		return
	}
	// a timer case that has not fired is an alternative only if something else is ready too,
	// or the only ready case (time passes)
	k := ready[0]
	if len(ready) > 1 {
		k = ready[m.decideN(len(ready), "select")]
	}
	s := states[k]
	if s.send {
		if s.ch.closed {
			m.goPanic("send on closed channel")
		}
		m.release(th, &s.ch.vc)
		s.ch.buf = append(s.ch.buf, s.val)
		result(k, false, nil)
		return
	}
	v, ok := m.doRecv(th, s.ch)
	result(k, ok, v)
}

// ---------- crash injection ----------

// mutationPoint is called by the environment stubs before every persistent mutation.
func (m *Machine) mutationPoint(th *Thread, label string) {
	m.mutations++
	if !m.crashOn {
		return
	}
	if m.decideN(2, "crash") == 1 {
		m.labels = append(m.labels, fmt.Sprintf("crash before mutation #%d (%s)", m.mutations, label))
		m.crash()
	}
}

type crashSig struct{}

func (m *Machine) crash() {
	main := m.threads[0]
	// find the crash barrier in the main thread
	idx := -1
	for k, fr := range main.frames {
		if fr.crashBar {
			idx = k
		}
	}
	if idx < 0 {
		m.unsupported("crash without RunCrashable")
	}
	bar := main.frames[idx]
	main.frames = main.frames[:idx]
	main.top().regs[bar.retSlot] = m.ts.True
	main.state = stRunnable
	main.panic = nil
	main.syncDepth = 0
	main.atomicDepth = 0
	main.passedSched = false
	for _, th := range m.threads[1:] {
		th.state = stDone
		th.frames = nil
	}
	m.threads = m.threads[:1]
	m.cur = main
	m.crashOn = false
	m.sync = newSyncState()
	panic(crashSig{})
}

// ---------- happens-before race monitor ----------

type access struct {
	tid   int
	clock int
	where string
	full  string
}
type shadow struct {
	w     *access
	reads []access
}

func markMon(c *Cell, tag string) {
	if c == nil || c.mon {
		return
	}
	c.mon = true
	switch x := c.v.(type) {
	case StructV:
		for _, f := range x.f {
			markMon(f, tag)
		}
	case ArrayV:
		for _, e := range x.e {
			markMon(e, tag)
		}
	}
}

// raceAccessDeep: an access to an aggregate (a struct or array loaded or stored as a whole) is an
// access to every one of its fields and elements; a later access to a single field must meet it.
func (m *Machine) raceAccessDeep(th *Thread, c *Cell, write bool) {
	if !m.raceOn || len(m.threads) == 1 || th == nil || c == nil {
		return
	}
	m.raceAccess(th, c, write)
	switch x := c.v.(type) {
	case StructV:
		for _, f := range x.f {
			if f != nil && f.mon {
				m.raceAccessDeep(th, f, write)
			}
		}
	case ArrayV:
		for _, e := range x.e {
			if e != nil && e.mon {
				m.raceAccessDeep(th, e, write)
			}
		}
	}
}

func (m *Machine) raceAccess(th *Thread, c *Cell, write bool) {
	if !m.raceOn || len(m.threads) == 1 || th == nil {
		return
	}
	if c.sh == nil {
		c.sh = &shadow{}
	}
	sh := c.sh
	for len(th.vc) <= th.id {
		th.vc = append(th.vc, 0)
	}
	hb := func(a *access) bool {
		if a.tid == th.id {
			return true
		}
		return a.tid < len(th.vc) && a.clock <= th.vc[a.tid]
	}
	here := ""
	report := func(a *access, kind string) {
		if a.tid < len(m.threads) {
			o := m.threads[a.tid]
			if a.tid >= len(o.vc) || a.clock > o.vc[a.tid] {
				panic(fmt.Sprintf("race monitor invariant: access clock %d of T%d exceeds that thread's clock %v", a.clock, a.tid, o.vc))
			}
		}
		here = m.whereShort(th)
		locs := []string{a.where, here}
		sort.Strings(locs)
		key := locs[0] + " | " + locs[1]
		m.w.reportRace(m, key, fmt.Sprintf("data race (%s): %s  vs  %s [current access T%d: %s] [previous access T%d clock %d: %s] [current vc %v]", kind, a.where, here, th.id, m.whereOf(th), a.tid, a.clock, a.full, th.vc))
	}
	if sh.w != nil && !hb(sh.w) {
		if write {
			report(sh.w, "write-write")
		} else {
			report(sh.w, "write-read")
		}
	}
	if write {
		for k := range sh.reads {
			if !hb(&sh.reads[k]) {
				report(&sh.reads[k], "read-write")
			}
		}
		sh.w = &access{th.id, th.vc[th.id], m.whereShort(th), m.fullIfVerbose(th)}
		sh.reads = sh.reads[:0]
	} else {
		for k := range sh.reads {
			if sh.reads[k].tid == th.id {
				sh.reads[k].clock = th.vc[th.id]
				sh.reads[k].where = m.whereShort(th)
				sh.reads[k].full = m.fullIfVerbose(th)
				return
			}
		}
		sh.reads = append(sh.reads, access{th.id, th.vc[th.id], m.whereShort(th), m.fullIfVerbose(th)})
	}
}

func (m *Machine) fullIfVerbose(th *Thread) string {
	if m.w.ex.cfg.Verbose {
		return m.whereOf(th)
	}
	return ""
}

func (m *Machine) whereShort(th *Thread) string {
	for i := len(th.frames) - 1; i >= 0; i-- {
		fr := th.frames[i]
		if fr.block == nil {
			continue
		}
		// the instruction being executed: for callers the call instruction precedes pc
		k := fr.pc
		if i < len(th.frames)-1 {
			k = fr.pc - 1
		}
		if k < 0 || k >= len(fr.block.Instrs) {
			continue
		}
		p := m.p.prog.Fset.Position(fr.block.Instrs[k].Pos())
		if p.IsValid() && strings.Contains(p.Filename, "/repo/") && !strings.Contains(p.Filename, "zz_verif") && !strings.Contains(p.Filename, "/internal/verif") {
			return fmt.Sprintf("%s:%d", shortFile(p.Filename), p.Line)
		}
	}
	if len(th.frames) > 0 {
		return th.top().fn.String()
	}
	return "?"
}

// ---------- lock-order graph (potential deadlocks on schedules where they did not bite) ----------

// lockAcquired records the edges held -> c and reports a cycle as soon as one exists.
func (m *Machine) lockAcquired(th *Thread, c *Cell) {
	s := m.sync
	if len(m.threads) < 2 {
		// single-threaded phases cannot deadlock with anyone; they still define no order we rely on
		s.held[th.id] = append(s.held[th.id], c)
		return
	}
	here := m.whereShort(th)
	if _, ok := s.names[c]; !ok {
		s.names[c] = here
	}
	for _, h := range s.held[th.id] {
		if h == c {
			continue
		}
		if s.edges[h] == nil {
			s.edges[h] = map[*Cell]string{}
		}
		if _, ok := s.edges[h][c]; !ok {
			s.edges[h][c] = here
			// a path c ->* h closes a cycle
			if path := m.lockPath(c, h, map[*Cell]bool{}); path != "" {
				key := "lock-order-cycle:" + here
				m.w.reportRaceKind(m, "lockorder", key, "lock-order cycle (potential deadlock): acquired at "+here+" while holding a lock that is elsewhere acquired after it: "+path)
			}
		}
	}
	s.held[th.id] = append(s.held[th.id], c)
}

func (m *Machine) lockReleased(th *Thread, c *Cell) {
	h := m.sync.held[th.id]
	for i := len(h) - 1; i >= 0; i-- {
		if h[i] == c {
			m.sync.held[th.id] = append(h[:i:i], h[i+1:]...)
			return
		}
	}
}

func (m *Machine) lockPath(from, to *Cell, seen map[*Cell]bool) string {
	if from == to {
		return m.sync.names[to]
	}
	if seen[from] {
		return ""
	}
	seen[from] = true
	for next, where := range m.sync.edges[from] {
		if p := m.lockPath(next, to, seen); p != "" {
			return where + " -> " + p
		}
	}
	return ""
}
