package main

import (
	"fmt"
	"go/types"
	"strings"
	"sync"

	"golang.org/x/tools/go/ssa"
)

// ---------- program-wide, read-only after load ----------

type Prog struct {
	prog     *ssa.Program
	pkgs     map[string]*ssa.Package
	infoMu   sync.Mutex
	infos    map[*ssa.Function]*fnInfo
	initPkgs []*ssa.Package
	modPath  string
}

type fnInfo struct {
	idx      map[ssa.Value]int
	n        int
	name     string
	intr     intrinsicFn
	redirect *ssa.Function
	rmode    string
	sched    bool // call is a scheduling point
	inRepo   bool
	monitor  bool // memory allocated by this function is watched by the race monitor
	atomic   bool // library function executed as one atomic step (reduction a)
	opaque   bool // method of a library type the environment models stand in for, without a model of its own
}

func (p *Prog) info(fn *ssa.Function) *fnInfo {
	p.infoMu.Lock()
	defer p.infoMu.Unlock()
	if fi, ok := p.infos[fn]; ok {
		return fi
	}
	fi := &fnInfo{idx: map[ssa.Value]int{}}
	n := 0
	for _, prm := range fn.Params {
		fi.idx[prm] = n
		n++
	}
	for _, fv := range fn.FreeVars {
		fi.idx[fv] = n
		n++
	}
	for _, b := range fn.Blocks {
		for _, ins := range b.Instrs {
			if v, ok := ins.(ssa.Value); ok {
				fi.idx[v] = n
				n++
			}
		}
	}
	fi.n = n
	fi.name = funcName(fn)
	fi.intr, fi.sched = lookupIntrinsic(fi.name, fn)
	if rd, ok := redirects[fi.name]; ok {
		fi.redirect = p.lookupFunc(rd)
		fi.rmode = redirectMode[fi.name]
	}
	pk := fn.Pkg
	if pk == nil {
		if o := fn.Origin(); o != nil {
			pk = o.Pkg
		}
	}
	if pk != nil {
		path := pk.Pkg.Path()
		fi.inRepo = strings.HasPrefix(path, p.modPath)
		fi.atomic = atomicPkgs[path]
		fi.monitor = (fi.inRepo || strings.HasPrefix(path, "github.com/glebziz/containers")) && !strings.Contains(path, "/internal/verif")
		if fi.monitor && fn.Pos().IsValid() && strings.Contains(p.prog.Fset.Position(fn.Pos()).Filename, "zz_verif") {
			fi.monitor = false // harness code
		}
	}
	if fi.intr == nil && fi.redirect == nil && fn.Signature.Recv() != nil {
		fi.opaque = opaqueRecv(fn.Signature.Recv().Type())
	}
	p.infos[fn] = fi
	return fi
}

// opaqueRecv: the library types whose values are mere tokens in the environment models (an
// *os.File, a Badger handle, a YAML decoder are zero structs used as map keys). Running their real
// methods on such a token would dereference nil inside the library and look like a panic of the
// program; a method without a model is therefore reported as unsupported (inconclusive).
func opaqueRecv(t types.Type) bool {
	if pt, ok := t.(*types.Pointer); ok {
		t = pt.Elem()
	}
	nt, ok := t.(*types.Named)
	if !ok || nt.Obj().Pkg() == nil {
		return false
	}
	switch nt.Obj().Pkg().Path() + "." + nt.Obj().Name() {
	case "os.File",
		"github.com/dgraph-io/badger/v3.DB", "github.com/dgraph-io/badger/v3.Txn",
		"github.com/dgraph-io/badger/v3.Iterator", "github.com/dgraph-io/badger/v3.Item",
		"gopkg.in/yaml.v2.Decoder", "google.golang.org/grpc.Server":
		return true
	}
	return false
}

// funcName: stable name used by the intrinsic and redirect tables; instantiations map to their origin.
func funcName(fn *ssa.Function) string {
	if o := fn.Origin(); o != nil {
		return o.String()
	}
	return fn.String()
}

// lookupFunc resolves "pkg/path.Name" to a package-level function.
func (p *Prog) lookupFunc(full string) *ssa.Function {
	i := strings.LastIndex(full, ".")
	pkg := p.pkgs[full[:i]]
	if pkg == nil {
		return nil
	}
	return pkg.Func(full[i+1:])
}

// ---------- per-run machine ----------

type pathEnd struct {
	kind string // done | infeasible | violation | unsupported | budget
	msg  string
}

type goPanicSig struct{ val Value }
type propagateSig struct{}

type Violation struct {
	Kind    string            `json:"kind"` // assert | panic | deadlock | race
	ID      string            `json:"id"`
	Msg     string            `json:"msg"`
	Trail   []int             `json:"trail"`
	Model   map[string]uint64 `json:"model"`
	Observe []string          `json:"observations,omitempty"`
	Harness string            `json:"harness"`
	Where   string            `json:"where,omitempty"`
	Key     string            `json:"key,omitempty"`
	Replayed bool             `json:"engine_concrete_replay"`
	Choices  []int            `json:"choices"`
	Labels   []string         `json:"labels,omitempty"`
	Native   string           `json:"native_reproduced"`
	// Threads: how many goroutines existed on the violating path (a schedule-dependent
	// counterexample is not replayed natively: the real scheduler cannot be told the schedule)
	Threads int `json:"threads,omitempty"`
}

type deferred struct {
	target callTarget
	args   []Value
}

type callTarget struct {
	fn      *ssa.Function
	binds   []Value
	builtin *ssa.Builtin
}

type Frame struct {
	fn        *ssa.Function
	info      *fnInfo
	regs      []Value
	block     *ssa.BasicBlock
	prev      *ssa.BasicBlock
	pc        int
	defers    []*deferred
	retSlot   int
	barrier   bool
	crashBar  bool
	unwinding bool
	isDefer   bool
	atomicTop bool
}

type panicInfo struct {
	val Value
	msg string
}

type Thread struct {
	id          int
	frames      []*Frame
	state       int // 0 runnable, 1 blocked, 2 done
	blockedOn   string
	canRun      func() bool
	panic       *panicInfo
	passedSched bool
	syncDepth   int
	barrierVal  Value
	vc          []int
	atomicDepth int
	atomicGate  bool
	lowPrio     bool
}

const (
	stRunnable = 0
	stBlocked  = 1
	stDone     = 2
)

type Machine struct {
	w       *Worker
	p       *Prog
	ts      *TermStore
	globals map[*ssa.Global]*Cell
	threads []*Thread
	cur     *Thread

	pc    []*Term
	model map[string]uint64 // satisfies pc when non-nil
	trail []int
	pos   int
	// decision log of this run (equals trail once past the frontier)
	concrete map[string]uint64 // concrete replay mode: values for symbolic inputs

	steps       int64
	maxSteps    int64
	unknowns    int
	observes    []string
	nameCount   map[string]int
	uuidCount   int
	mapOrder    int
	preemptions int
	maxPreempt  int
	sync        *syncState
	crashOn     bool
	mutations   int
	raceOn      bool
	spawnFork   bool
	env         map[string]Value
	harness     string
	nontrivial  bool
	reached     map[string]bool
	funcsSeen   map[*ssa.Function]bool
	initDone    bool
	schedPoints int
	labels      []string
	choices      []int
	envDecisions int
	self         *selfState
	selfTestArg  bool
	modes        map[string]bool
	pendingModel map[string]uint64
	ids          int
	stepDepth    int
}

func (m *Machine) unsupported(msg string) {
	panic(pathEnd{"unsupported", msg})
}

func (m *Machine) where() string {
	th := m.cur
	if th == nil || len(th.frames) == 0 {
		return ""
	}
	var parts []string
	for i := len(th.frames) - 1; i >= 0 && len(parts) < 6; i-- {
		fr := th.frames[i]
		pos := ""
		if fr.block != nil && fr.pc < len(fr.block.Instrs) {
			p := m.p.prog.Fset.Position(fr.block.Instrs[fr.pc].Pos())
			if p.IsValid() {
				pos = fmt.Sprintf(" %s:%d", shortFile(p.Filename), p.Line)
			}
		}
		parts = append(parts, fr.fn.String()+pos)
	}
	return strings.Join(parts, " <- ")
}

func shortFile(f string) string {
	if i := strings.Index(f, "/repo/"); i >= 0 {
		return f[i+6:]
	}
	if i := strings.LastIndex(f, "/"); i >= 0 {
		return f[i+1:]
	}
	return f
}

func (m *Machine) globalCell(g *ssa.Global) *Cell {
	if c, ok := m.globals[g]; ok {
		return c
	}
	c := &Cell{v: m.zero(g.Type().(*types.Pointer).Elem())}
	if m.raceOn && g.Pkg != nil && strings.HasPrefix(g.Pkg.Pkg.Path(), m.p.modPath) && !strings.Contains(g.Pkg.Pkg.Path(), "/internal/verif") && !strings.HasPrefix(g.Name(), "verif") && !strings.HasPrefix(g.Name(), "Verif") {
		markMon(c, g.String())
	}
	m.globals[g] = c
	return c
}

func (m *Machine) constValue(c *ssa.Const) Value {
	t := c.Type()
	if c.Value == nil {
		return m.zero(t)
	}
	if w, signed, ok := intWidth(t); ok {
		if w == 0 {
			return m.ts.Bool(constantBool(c))
		}
		if signed {
			return m.ts.Const(w, uint64(c.Int64()))
		}
		return m.ts.Const(w, c.Uint64())
	}
	if isString(t) {
		return constantString(c)
	}
	if isFloat(t) {
		return FloatV(c.Float64())
	}
	if _, ok := t.Underlying().(*types.Interface); ok {
		return IfaceV{}
	}
	m.unsupported("const of type " + t.String())
	return nil
}

func (m *Machine) operand(fr *Frame, v ssa.Value) Value {
	switch x := v.(type) {
	case *ssa.Const:
		return m.constValue(x)
	case *ssa.Global:
		return m.globalCell(x)
	case *ssa.Function:
		return &Closure{fn: x}
	case *ssa.Builtin:
		return x
	}
	i, ok := fr.info.idx[v]
	if !ok {
		m.unsupported("operand without slot: " + v.String())
	}
	return fr.regs[i]
}

func (m *Machine) setReg(fr *Frame, v ssa.Value, val Value) {
	fr.regs[fr.info.idx[v]] = val
}

// ---------- path condition and decisions ----------

func (m *Machine) replaying() bool { return m.pos < len(m.trail) }

func (m *Machine) evalBool(c *Term) bool {
	return m.ts.Eval(c, m.model, map[*Term]uint64{}) != 0
}

// feasible: is pc ∧ c satisfiable? On sat the cached model is replaced by one that satisfies pc ∧ c
// when adopt is true.
func (m *Machine) feasible(c *Term, adopt bool) (bool, map[string]uint64) {
	if c.IsTrue() {
		return true, m.model
	}
	if c.IsFalse() {
		return false, nil
	}
	if m.concrete != nil {
		// replay: every variable is fixed by the model, the engine's own evaluator decides
		return m.evalBool(c), m.model
	}
	if m.model != nil && m.evalBool(c) {
		return true, m.model
	}
	conj := append(append([]*Term{}, m.pc...), c)
	res, s := m.w.solver.Check(conj)
	switch res {
	case "unsat":
		return false, nil
	case "sat":
		vars := m.varsOf(conj)
		mod, ok := s.Model(vars)
		if !ok {
			mod = nil
		}
		if mod != nil {
			// validate the model against the engine's own evaluator
			memo := map[*Term]uint64{}
			for _, t := range conj {
				if m.ts.Eval(t, mod, memo) == 0 {
					m.w.modelMismatch++
					mod = nil
					break
				}
			}
		}
		if adopt {
			m.model = mod
		}
		return true, mod
	default:
		m.unknowns++
		m.w.unknownQueries++
		return true, nil
	}
}

func (m *Machine) varsOf(conj []*Term) []*Term {
	seen := map[*Term]bool{}
	var out []*Term
	for _, t := range conj {
		t.Vars(seen, &out)
	}
	return out
}

func (m *Machine) addPC(c *Term) {
	if c.IsTrue() {
		return
	}
	m.pc = append(m.pc, c)
	if m.model != nil && !m.evalBool(c) {
		m.model = nil
	}
}

// decide picks alternative among n; alts lists the feasible ones in the order of preference when at the frontier.
// feasibleAlt(i) is asked only at the frontier.
func (m *Machine) decideN(n int, tag string) int {
	if m.pos < len(m.trail) {
		d := m.trail[m.pos]
		m.pos++
		if m.pos == len(m.trail) {
			m.adoptPending()
		}
		if d != 0 {
			m.nontrivial = true // an input-shape / operation / schedule / crash / order alternative other than the default one
		}
		if d >= n {
			m.unsupported(fmt.Sprintf("trail out of range at %s: %d >= %d", tag, d, n))
		}
		return d
	}
	if strings.HasPrefix(tag, "sched") || strings.HasPrefix(tag, "switch") || strings.HasPrefix(tag, "select") || strings.HasPrefix(tag, "crash") || strings.HasPrefix(tag, "shuffle") || strings.HasPrefix(tag, "maporder") {
		m.envDecisions++
	}
	// frontier: all n alternatives are feasible (pure choice); queue the others
	for i := n - 1; i >= 1; i-- {
		m.w.push(m, i)
	}
	m.trail = append(m.trail, 0)
	m.pos++
	return 0
}

// branch decides a symbolic condition.
func (m *Machine) branch(c *Term) bool {
	if c.op == OpConst {
		return c.val != 0
	}
	m.nontrivial = true
	if m.pos < len(m.trail) {
		d := m.trail[m.pos]
		m.pos++
		if m.pos == len(m.trail) {
			m.adoptPending()
		}
		if m.concrete != nil && m.evalBool(c) != (d == 1) {
			panic(pathEnd{"unsupported", "replay diverged: model does not drive the recorded branch"})
		}
		if d == 1 {
			m.pc = append(m.pc, c)
			return true
		}
		m.pc = append(m.pc, m.ts.Not(c))
		return false
	}
	nc := m.ts.Not(c)
	var tOK, fOK bool
	var tModel, fModel map[string]uint64
	if m.model != nil {
		if m.evalBool(c) {
			tOK, tModel = true, m.model
			fOK, fModel = m.feasible(nc, false)
		} else {
			fOK, fModel = true, m.model
			tOK, tModel = m.feasible(c, false)
		}
	} else {
		tOK, tModel = m.feasible(c, false)
		if !tOK {
			fOK, fModel = true, nil
		} else {
			fOK, fModel = m.feasible(nc, false)
		}
	}
	switch {
	case tOK && fOK:
		m.w.forkSite(m.whereShort(m.cur))
		m.w.pushWithModel(m, 0, fModel)
		m.trail = append(m.trail, 1)
		m.pos++
		m.pc = append(m.pc, c)
		m.model = tModel
		return true
	case tOK:
		m.trail = append(m.trail, 1)
		m.pos++
		m.pc = append(m.pc, c)
		m.model = tModel
		return true
	case fOK:
		m.trail = append(m.trail, 0)
		m.pos++
		m.pc = append(m.pc, nc)
		m.model = fModel
		return false
	}
	panic(pathEnd{"infeasible", "both sides infeasible"})
}

// obligation: cond must hold on every value admitted by pc; otherwise a violation of kind.
func (m *Machine) obligation(cond *Term, kind, id, msg string) {
	m.w.obligations++
	if cond.IsTrue() {
		m.w.dischargedSyntactic++
		return
	}
	if m.concrete != nil {
		if m.evalBool(cond) {
			return
		}
		m.violation(kind, id, msg, m.model)
	}
	if m.replaying() {
		// already decided by the ancestor path that queued this trail
		m.w.obligations--
		return
	}
	m.nontrivial = true
	bad, mod := m.feasible(m.ts.Not(cond), false)
	if !bad {
		m.w.dischargedSolver++
		m.w.sampleCross(append(append([]*Term{}, m.pc...), m.ts.Not(cond)), id)
		return
	}
	if m.concrete == nil && mod == nil && !cond.IsFalse() {
		// feasibility unknown: inconclusive, not a violation
		m.w.obligations--
		panic(pathEnd{"unsupported", "solver undecided on obligation " + id})
	}
	if cond.IsFalse() {
		mod = m.model
		if mod == nil {
			// need some model of pc for the report
			ok, mm := m.feasible(m.ts.True, false)
			_ = ok
			mod = mm
			if mod == nil && len(m.pc) > 0 {
				res, s := m.w.solver.Check(m.pc)
				if res == "sat" {
					mod, _ = s.Model(m.varsOf(m.pc))
				} else if res == "unsat" {
					panic(pathEnd{"infeasible", "pc unsat at violation"})
				} else {
					// the path's feasibility could not be established: not a violation
					m.w.obligations--
					panic(pathEnd{"unsupported", "solver undecided on the feasibility of a path that ends in " + id})
				}
			}
		}
	}
	m.violation(kind, id, msg, mod)
}

func (m *Machine) violation(kind, id, msg string, mod map[string]uint64) {
	v := &Violation{Kind: kind, ID: id, Msg: msg, Trail: append([]int{}, m.trail[:m.pos]...), Model: mod, Harness: m.harness, Where: m.where()}
	v.Observe = append(v.Observe, m.observes...)
	v.Choices = append([]int{}, m.choices...)
	v.Labels = append([]string{}, m.labels...)
	v.Native = "not_attempted"
	v.Threads = len(m.threads)
	m.w.report(v)
	panic(pathEnd{"violation", id})
}

// ---------- threads and frames ----------

func (m *Machine) newThread() *Thread {
	th := &Thread{id: len(m.threads)}
	m.threads = append(m.threads, th)
	return th
}

func (th *Thread) top() *Frame { return th.frames[len(th.frames)-1] }

func (m *Machine) pushFrame(th *Thread, fn *ssa.Function, binds []Value, args []Value, retSlot int) *Frame {
	fi := m.p.info(fn)
	if len(fn.Blocks) == 0 {
		m.unsupported("no body: " + fi.name)
	}
	if fi.opaque {
		m.unsupported("no environment model for " + fi.name)
	}
	if len(th.frames) > 400 {
		m.unsupported("stack depth")
	}
	if m.funcsSeen != nil {
		m.funcsSeen[fn] = true
	}
	fr := &Frame{fn: fn, info: fi, regs: make([]Value, fi.n), block: fn.Blocks[0], retSlot: retSlot}
	if len(args) != len(fn.Params) {
		m.unsupported(fmt.Sprintf("arity mismatch calling %s: %d args for %d params", fi.name, len(args), len(fn.Params)))
	}
	copy(fr.regs, args)
	copy(fr.regs[len(fn.Params):], binds)
	if fi.atomic && th.atomicDepth == 0 && len(m.threads) > 1 {
		fr.atomicTop = true
		th.atomicDepth = 1
		th.atomicGate = false
	}
	th.frames = append(th.frames, fr)
	return fr
}

// invoke performs a call from the top frame of th; result goes to retSlot of the caller.
// returns false if the call blocked (instruction must be retried).
func (m *Machine) invoke(th *Thread, tgt callTarget, args []Value, retSlot int, caller *Frame) bool {
	if tgt.builtin != nil {
		res := m.callBuiltin(th, tgt.builtin, args, caller)
		if retSlot >= 0 && caller != nil {
			caller.regs[retSlot] = res
		}
		return true
	}
	fn := tgt.fn
	fi := m.p.info(fn)
	if fi.intr != nil {
		res, ok := fi.intr(m, th, fn, args)
		if !ok {
			return false
		}
		if retSlot >= 0 && caller != nil {
			caller.regs[retSlot] = res
		}
		return true
	}
	if fi.redirect != nil && (fi.rmode == "" || m.modes[fi.rmode]) {
		fn = fi.redirect
		tgt.binds = nil
	}
	m.pushFrame(th, fn, tgt.binds, args, retSlot)
	return true
}

// callSync runs a callable to completion inside the current step (no thread switches).
func (m *Machine) callSync(th *Thread, fv Value, args []Value) Value {
	tgt := m.targetOf(fv)
	if tgt.builtin != nil {
		return m.callBuiltin(th, tgt.builtin, args, nil)
	}
	fi := m.p.info(tgt.fn)
	if fi.intr != nil {
		res, ok := fi.intr(m, th, tgt.fn, args)
		if !ok {
			m.unsupported("blocking intrinsic inside synchronous call: " + fi.name)
		}
		return res
	}
	fn := tgt.fn
	if fi.redirect != nil && (fi.rmode == "" || m.modes[fi.rmode]) {
		fn = fi.redirect
		tgt.binds = nil
	}
	depth := len(th.frames)
	fr := m.pushFrame(th, fn, tgt.binds, args, -1)
	fr.barrier = true
	th.syncDepth++
	for len(th.frames) > depth {
		m.stepThread(th)
		if th.state == stBlocked {
			m.unsupported("blocked inside synchronous call of " + fi.name)
		}
	}
	th.syncDepth--
	if th.panic != nil {
		panic(propagateSig{})
	}
	return th.barrierVal
}

func (m *Machine) callMethod(th *Thread, recv IfaceV, name string, args ...Value) Value {
	fn := m.lookupMethod(recv.t, name)
	if fn == nil {
		m.unsupported("method " + name + " not found on " + recv.t.String())
	}
	return m.callSync(th, &Closure{fn: fn}, append([]Value{recv.v}, args...))
}

func (m *Machine) lookupMethod(t types.Type, name string) *ssa.Function {
	ms := m.p.prog.MethodSets.MethodSet(t)
	for i := 0; i < ms.Len(); i++ {
		sel := ms.At(i)
		if sel.Obj().Name() == name {
			return m.p.prog.MethodValue(sel)
		}
	}
	return nil
}

func (m *Machine) targetOf(fv Value) callTarget {
	switch f := fv.(type) {
	case *Closure:
		if f == nil {
			m.goPanic("call of nil func")
		}
		return callTarget{fn: f.fn, binds: f.binds}
	case *ssa.Builtin:
		return callTarget{builtin: f}
	case *ssa.Function:
		return callTarget{fn: f}
	}
	m.unsupported(fmt.Sprintf("call of %T", fv))
	return callTarget{}
}

func (m *Machine) goPanic(msg string) {
	panic(goPanicSig{IfaceV{t: types.Typ[types.String], v: "runtime error: " + msg}})
}

func resultsValue(vals []Value) Value {
	switch len(vals) {
	case 0:
		return nil
	case 1:
		return vals[0]
	}
	return TupleV(vals)
}

func (m *Machine) doReturn(th *Thread, res Value) {
	fr := th.top()
	th.frames = th.frames[:len(th.frames)-1]
	if fr.atomicTop {
		th.atomicDepth--
		th.atomicGate = false
	}
	if fr.barrier {
		th.barrierVal = res
		return
	}
	if len(th.frames) == 0 {
		m.threadDone(th)
		return
	}
	caller := th.top()
	if fr.crashBar {
		// normal completion of RunCrashable: not crashed
		caller.regs[fr.retSlot] = m.ts.False
		m.crashOn = false
		return
	}
	if fr.retSlot >= 0 {
		caller.regs[fr.retSlot] = res
	}
}

func (m *Machine) zeroResults(fn *ssa.Function) Value {
	r := fn.Signature.Results()
	vals := make([]Value, r.Len())
	for i := range vals {
		vals[i] = m.zero(r.At(i).Type())
	}
	return resultsValue(vals)
}

// stepThread executes one instruction (or one unwinding action) of th.
func (m *Machine) stepThread(th *Thread) {
	m.steps++
	if m.steps > m.maxSteps {
		panic(pathEnd{"budget", "instruction budget exceeded"})
	}
	m.stepDepth++
	defer func() {
		m.stepDepth--
		if r := recover(); r != nil {
			switch sig := r.(type) {
			case goPanicSig:
				m.raise(th, sig.val)
			case propagateSig:
				if len(th.frames) > 0 {
					th.top().unwinding = true
				}
			case crashSig:
				if m.stepDepth > 0 {
					panic(r)
				}
			default:
				panic(r)
			}
		}
	}()
	fr := th.top()
	if fr.unwinding {
		if len(fr.defers) > 0 {
			d := fr.defers[len(fr.defers)-1]
			fr.defers = fr.defers[:len(fr.defers)-1]
			m.invokeDeferred(th, fr, d)
			return
		}
		if th.panic == nil { // recovered
			fr.unwinding = false
			if fr.fn.Recover != nil {
				fr.prev = fr.block
				fr.block = fr.fn.Recover
				fr.pc = 0
				return
			}
			m.doReturn(th, m.zeroResults(fr.fn))
			return
		}
		// propagate to the caller
		th.frames = th.frames[:len(th.frames)-1]
		if fr.atomicTop {
			th.atomicDepth--
		}
		if fr.barrier {
			return // callSync notices th.panic
		}
		if len(th.frames) == 0 {
			msg := "panic: " + m.panicString(th.panic.val)
			m.obligation(m.ts.False, "panic", "panic", msg)
			return
		}
		th.top().unwinding = true
		return
	}
	m.exec(th, fr)
}

func (m *Machine) raise(th *Thread, val Value) {
	th.panic = &panicInfo{val: val}
	if len(th.frames) > 0 {
		th.top().unwinding = true
	}
}

func (m *Machine) panicString(v Value) string {
	if iv, ok := v.(IfaceV); ok {
		if iv.t == nil {
			return "nil"
		}
		if s, ok := iv.v.(string); ok {
			return s
		}
		if fn := m.lookupMethod(iv.t, "Error"); fn != nil {
			func() {
				defer func() { recover() }()
			}()
			return iv.t.String()
		}
		return iv.t.String() + " " + m.describe(iv.v, m.model, 0)
	}
	return m.describe(v, m.model, 0)
}

func (m *Machine) invokeDeferred(th *Thread, owner *Frame, d *deferred) {
	if d.target.builtin != nil {
		m.callBuiltin(th, d.target.builtin, d.args, owner)
		return
	}
	fi := m.p.info(d.target.fn)
	if fi.intr != nil {
		_, ok := fi.intr(m, th, d.target.fn, d.args)
		if !ok {
			// blocked or switched away at the scheduling point: re-queue, retry when rescheduled
			owner.defers = append(owner.defers, d)
		} else {
			th.passedSched = false
		}
		return
	}
	fn := d.target.fn
	binds := d.target.binds
	if fi.redirect != nil && (fi.rmode == "" || m.modes[fi.rmode]) {
		fn, binds = fi.redirect, nil
	}
	fr := m.pushFrame(th, fn, binds, d.args, -1)
	fr.isDefer = true
}

func (m *Machine) threadDone(th *Thread) {
	th.state = stDone
	if m.sync != nil {
		m.sync.onThreadExit(m, th)
	}
}

func constantBool(c *ssa.Const) bool {
	return c.Value.String() == "true"
}
