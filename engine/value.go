package main

import (
	"fmt"
	"go/types"
	"sort"
	"strings"

	"golang.org/x/tools/go/ssa"
)

// Value kinds:
//   *Term      ints and bools (symbolic or constant)
//   string     concrete string;  *SymStr symbolic bytes, concrete length
//   FloatV     float constants (no symbolic floats)
//   *Cell      pointer (nil *Cell = nil pointer); *SymPtr element pointer with symbolic index
//   SliceV, StructV, ArrayV, *MapV, IfaceV, *Closure, *ChanV, TupleV
type Value interface{}

type Cell struct {
	v  Value
	sh *shadow // race monitor state, nil unless monitored
	// allocation info for the race monitor
	mon bool
	tag string
}

type StructV struct{ f []*Cell }
type ArrayV struct{ e []*Cell }
type SliceV struct {
	cells  []*Cell
	nonnil bool
	symLen *Term // len-only override (nd.SymLen)
}
type IfaceV struct {
	t types.Type
	v Value
}
type TupleV []Value
type FloatV float64
type SymStr struct{ b []*Term }
type SymPtr struct {
	cells []*Cell
	idx   *Term
}

type Closure struct {
	fn    *ssa.Function
	binds []Value
}

type mapEntry struct {
	k, v  Value
	alive bool
}
type MapV struct {
	keys []any
	m    map[any]*mapEntry
	vt   types.Type
	kt   types.Type
	sh   *Cell // race-monitor proxy for the whole map
}

type mapIter struct {
	mp   *MapV
	keys []any
	pos  int
	str  string
	isS  bool
}

func (s SliceV) isNil() bool { return s.cells == nil && !s.nonnil }

func intWidth(t types.Type) (w uint8, signed bool, ok bool) {
	b, isB := t.Underlying().(*types.Basic)
	if !isB {
		return 0, false, false
	}
	switch b.Kind() {
	case types.Bool, types.UntypedBool:
		return 0, false, true
	case types.Int8:
		return 8, true, true
	case types.Uint8:
		return 8, false, true
	case types.Int16:
		return 16, true, true
	case types.Uint16:
		return 16, false, true
	case types.Int32, types.UntypedRune:
		return 32, true, true
	case types.Uint32:
		return 32, false, true
	case types.Int64, types.Int, types.UntypedInt:
		return 64, true, true
	case types.Uint64, types.Uint, types.Uintptr:
		return 64, false, true
	}
	return 0, false, false
}

func isString(t types.Type) bool {
	b, ok := t.Underlying().(*types.Basic)
	return ok && b.Info()&types.IsString != 0
}

func isFloat(t types.Type) bool {
	b, ok := t.Underlying().(*types.Basic)
	return ok && b.Info()&types.IsFloat != 0
}

func (m *Machine) zero(t types.Type) Value {
	switch u := t.Underlying().(type) {
	case *types.Basic:
		if w, _, ok := intWidth(u); ok {
			return m.ts.Const(w, 0)
		}
		if u.Info()&types.IsString != 0 {
			return ""
		}
		if u.Info()&types.IsFloat != 0 {
			return FloatV(0)
		}
		if u.Kind() == types.UnsafePointer || u.Kind() == types.UntypedNil {
			return (*Cell)(nil)
		}
		if u.Info()&types.IsComplex != 0 {
			return FloatV(0)
		}
		if u.Kind() == types.Invalid {
			return nil // unused range variable
		}
		m.unsupported("zero of basic " + u.String())
	case *types.Pointer:
		return (*Cell)(nil)
	case *types.Slice:
		return SliceV{}
	case *types.Map:
		return (*MapV)(nil)
	case *types.Chan:
		return (*ChanV)(nil)
	case *types.Signature:
		return (*Closure)(nil)
	case *types.Interface:
		return IfaceV{}
	case *types.Struct:
		n := u.NumFields()
		f := make([]*Cell, n)
		for i := 0; i < n; i++ {
			f[i] = &Cell{v: m.zero(u.Field(i).Type())}
		}
		return StructV{f}
	case *types.Array:
		n := int(u.Len())
		if n > 1<<20 {
			m.unsupported("huge array")
		}
		e := make([]*Cell, n)
		et := u.Elem()
		// fast path for scalar elements
		if w, _, ok := intWidth(et); ok {
			z := m.ts.Const(w, 0)
			for i := range e {
				e[i] = &Cell{v: z}
			}
		} else {
			for i := range e {
				e[i] = &Cell{v: m.zero(et)}
			}
		}
		return ArrayV{e}
	case *types.Tuple:
		tv := make(TupleV, u.Len())
		for i := range tv {
			tv[i] = m.zero(u.At(i).Type())
		}
		return tv
	}
	m.unsupported("zero of " + t.String())
	return nil
}

func copyValue(v Value) Value {
	switch x := v.(type) {
	case StructV:
		f := make([]*Cell, len(x.f))
		for i, c := range x.f {
			f[i] = &Cell{v: copyValue(c.v)}
		}
		return StructV{f}
	case ArrayV:
		e := make([]*Cell, len(x.e))
		for i, c := range x.e {
			e[i] = &Cell{v: copyValue(c.v)}
		}
		return ArrayV{e}
	}
	return v
}

// copyInto overwrites the contents of dst (a struct/array cell tree) keeping cell identity,
// so that pointers to fields stay valid (Go's assignment semantics).
func (m *Machine) storeCell(c *Cell, v Value) {
	switch x := v.(type) {
	case StructV:
		if old, ok := c.v.(StructV); ok && len(old.f) == len(x.f) {
			for i := range x.f {
				m.storeCell(old.f[i], x.f[i].v)
			}
			return
		}
		c.v = copyValue(v)
	case ArrayV:
		if old, ok := c.v.(ArrayV); ok && len(old.e) == len(x.e) {
			for i := range x.e {
				m.storeCell(old.e[i], x.e[i].v)
			}
			return
		}
		c.v = copyValue(v)
	default:
		c.v = v
	}
}

func (m *Machine) newMap(kt, vt types.Type) *MapV {
	return &MapV{m: map[any]*mapEntry{}, kt: kt, vt: vt}
}

type ifaceKey struct {
	t string
	k any
}

// hashKey maps a concrete value to a comparable Go value usable as map key.
func (m *Machine) hashKey(v Value) any {
	switch x := v.(type) {
	case *Term:
		if x.op != OpConst {
			m.unsupported("symbolic map key")
		}
		return [2]uint64{uint64(x.w), x.val}
	case string:
		return x
	case *Cell:
		return x
	case FloatV:
		return x
	case IfaceV:
		if x.t == nil {
			return ifaceKey{}
		}
		return ifaceKey{x.t.String(), m.hashKey(x.v)}
	case StructV:
		var sb strings.Builder
		sb.WriteString("{")
		for _, c := range x.f {
			fmt.Fprintf(&sb, "%v;", m.hashKey(c.v))
		}
		sb.WriteString("}")
		return sb.String()
	case ArrayV:
		var sb strings.Builder
		sb.WriteString("[")
		for _, c := range x.e {
			fmt.Fprintf(&sb, "%v;", m.hashKey(c.v))
		}
		sb.WriteString("]")
		return sb.String()
	case *ChanV:
		return x
	case *SymStr:
		m.unsupported("symbolic string as map key")
	}
	m.unsupported(fmt.Sprintf("map key of kind %T", v))
	return nil
}

func (mp *MapV) get(k any) (Value, bool) {
	if mp == nil {
		return nil, false
	}
	e, ok := mp.m[k]
	if !ok {
		return nil, false
	}
	return e.v, true
}

func (mp *MapV) set(k any, kv, v Value) {
	if e, ok := mp.m[k]; ok {
		e.v = v
		return
	}
	mp.m[k] = &mapEntry{k: kv, v: v, alive: true}
	mp.keys = append(mp.keys, k)
}

func (mp *MapV) del(k any) {
	if mp == nil {
		return
	}
	if _, ok := mp.m[k]; !ok {
		return
	}
	delete(mp.m, k)
	for i, kk := range mp.keys {
		if kk == k {
			mp.keys = append(mp.keys[:i:i], mp.keys[i+1:]...)
			break
		}
	}
}

func (mp *MapV) length() int {
	if mp == nil {
		return 0
	}
	return len(mp.m)
}

// equal builds the Go == relation as a Term.
func (m *Machine) equal(x, y Value) *Term {
	ts := m.ts
	switch a := x.(type) {
	case *Term:
		b, ok := y.(*Term)
		if !ok {
			m.unsupported(fmt.Sprintf("== of Term and %T", y))
		}
		return ts.Eq(a, b)
	case string:
		switch b := y.(type) {
		case string:
			return ts.Bool(a == b)
		case *SymStr:
			return m.symStrEq(m.toSym(a), b)
		}
	case *SymStr:
		return m.symStrEq(a, m.toSym(y))
	case FloatV:
		return ts.Bool(a == y.(FloatV))
	case *Cell:
		switch b := y.(type) {
		case *Cell:
			return ts.Bool(a == b)
		case *SymPtr:
			return ts.False
		}
	case *SymPtr:
		m.unsupported("== on symbolic element pointer")
	case SliceV:
		b := y.(SliceV)
		// only comparison with nil is legal
		if b.isNil() {
			return ts.Bool(a.isNil())
		}
		return ts.Bool(b.isNil() == a.isNil() && a.isNil())
	case *MapV:
		return ts.Bool(a == y.(*MapV))
	case *ChanV:
		return ts.Bool(a == y.(*ChanV))
	case *Closure:
		b := y.(*Closure)
		return ts.Bool((a == nil) == (b == nil) && (a == nil || a == b))
	case IfaceV:
		b, ok := y.(IfaceV)
		if !ok {
			m.unsupported("== iface with non-iface")
		}
		if a.t == nil || b.t == nil {
			return ts.Bool(a.t == nil && b.t == nil)
		}
		if !types.Identical(a.t, b.t) {
			return ts.False
		}
		if !types.Comparable(a.t) {
			m.goPanic("runtime error: comparing uncomparable type " + a.t.String())
		}
		return m.equal(a.v, b.v)
	case StructV:
		b := y.(StructV)
		r := ts.True
		for i := range a.f {
			r = ts.And(r, m.equal(a.f[i].v, b.f[i].v))
		}
		return r
	case ArrayV:
		b := y.(ArrayV)
		r := ts.True
		for i := range a.e {
			r = ts.And(r, m.equal(a.e[i].v, b.e[i].v))
		}
		return r
	}
	m.unsupported(fmt.Sprintf("== on %T / %T", x, y))
	return nil
}

func (m *Machine) toSym(v Value) *SymStr {
	switch s := v.(type) {
	case *SymStr:
		return s
	case string:
		b := make([]*Term, len(s))
		for i := 0; i < len(s); i++ {
			b[i] = m.ts.Const(8, uint64(s[i]))
		}
		return &SymStr{b}
	}
	m.unsupported(fmt.Sprintf("toSym of %T", v))
	return nil
}

func (m *Machine) symStrEq(a, b *SymStr) *Term {
	if len(a.b) != len(b.b) {
		return m.ts.False
	}
	r := m.ts.True
	for i := range a.b {
		r = m.ts.And(r, m.ts.Eq(a.b[i], b.b[i]))
	}
	return r
}

// concretize a symbolic string whose bytes are all constants
func (m *Machine) strOf(v Value) (string, bool) {
	switch s := v.(type) {
	case string:
		return s, true
	case *SymStr:
		bs := make([]byte, len(s.b))
		for i, t := range s.b {
			if t.op != OpConst {
				return "", false
			}
			bs[i] = byte(t.val)
		}
		return string(bs), true
	}
	return "", false
}

func (m *Machine) mustStr(v Value) string {
	s, ok := m.strOf(v)
	if !ok {
		m.unsupported("symbolic string where a concrete one is required")
	}
	return s
}

func normStr(m *Machine, s *SymStr) Value {
	if str, ok := m.strOf(s); ok {
		return str
	}
	return s
}

func strLen(v Value) int {
	switch s := v.(type) {
	case string:
		return len(s)
	case *SymStr:
		return len(s.b)
	}
	panic("strLen")
}

// describe renders a value for samples / messages.
func (m *Machine) describe(v Value, model map[string]uint64, depth int) string {
	if depth > 4 {
		return "…"
	}
	switch x := v.(type) {
	case nil:
		return "nil"
	case *Term:
		if x.op == OpConst {
			if x.w == 0 {
				return fmt.Sprint(x.val != 0)
			}
			return fmt.Sprint(x.val)
		}
		if model != nil {
			val := m.ts.Eval(x, model, map[*Term]uint64{})
			return fmt.Sprintf("%d", val)
		}
		return x.String()
	case string:
		return fmt.Sprintf("%q", x)
	case *SymStr:
		parts := make([]string, len(x.b))
		for i, b := range x.b {
			parts[i] = m.describe(b, model, depth+1)
		}
		return "sym[" + strings.Join(parts, ",") + "]"
	case FloatV:
		return fmt.Sprint(float64(x))
	case *Cell:
		if x == nil {
			return "nil"
		}
		return "&" + m.describe(x.v, model, depth+1)
	case SliceV:
		if x.isNil() {
			return "nil"
		}
		parts := []string{}
		for i, c := range x.cells {
			if i >= 8 {
				parts = append(parts, fmt.Sprintf("…(%d)", len(x.cells)))
				break
			}
			parts = append(parts, m.describe(c.v, model, depth+1))
		}
		return "[" + strings.Join(parts, " ") + "]"
	case StructV:
		parts := make([]string, len(x.f))
		for i, c := range x.f {
			parts[i] = m.describe(c.v, model, depth+1)
		}
		return "{" + strings.Join(parts, " ") + "}"
	case ArrayV:
		parts := []string{}
		for i, c := range x.e {
			if i >= 8 {
				parts = append(parts, "…")
				break
			}
			parts = append(parts, m.describe(c.v, model, depth+1))
		}
		return "[" + strings.Join(parts, " ") + "]"
	case IfaceV:
		if x.t == nil {
			return "nil"
		}
		return x.t.String() + "(" + m.describe(x.v, model, depth+1) + ")"
	case *MapV:
		if x == nil {
			return "map(nil)"
		}
		return fmt.Sprintf("map[%d]", len(x.m))
	case *Closure:
		if x == nil {
			return "func(nil)"
		}
		return "func " + x.fn.String()
	case TupleV:
		parts := make([]string, len(x))
		for i, c := range x {
			parts[i] = m.describe(c, model, depth+1)
		}
		return "(" + strings.Join(parts, ", ") + ")"
	}
	return fmt.Sprintf("%T", v)
}

func sortedModel(model map[string]uint64) []string {
	keys := make([]string, 0, len(model))
	for k := range model {
		keys = append(keys, k)
	}
	sort.Strings(keys)
	out := make([]string, len(keys))
	for i, k := range keys {
		out[i] = fmt.Sprintf("%s=%d", k, model[k])
	}
	return out
}
