package main

import (
	"fmt"
	"strings"
)

// Terms: hash-consed SMT nodes of sort Bool (width 0) or (_ BitVec width), width <= 64.
// Constants fold eagerly so concrete computation never reaches the solver.

type Op uint8

const (
	OpConst Op = iota
	OpVar
	OpNot
	OpAnd
	OpOr
	OpEq
	OpIte
	OpAdd
	OpSub
	OpMul
	OpUDiv
	OpSDiv
	OpURem
	OpSRem
	OpBAnd
	OpBOr
	OpBXor
	OpBNot
	OpNeg
	OpShl
	OpLshr
	OpAshr
	OpUlt
	OpUle
	OpSlt
	OpSle
	OpExtract // val = hi<<8 | lo
	OpZext    // to width
	OpSext
	OpConcat
)

var opNames = [...]string{"const", "var", "not", "and", "or", "=", "ite", "bvadd", "bvsub", "bvmul", "bvudiv", "bvsdiv", "bvurem", "bvsrem",
	"bvand", "bvor", "bvxor", "bvnot", "bvneg", "bvshl", "bvlshr", "bvashr", "bvult", "bvule", "bvslt", "bvsle", "extract", "zero_extend", "sign_extend", "concat"}

type Term struct {
	id   int
	op   Op
	w    uint8 // 0 = Bool
	a    [3]*Term
	val  uint64
	name string
	cl   bool // constant-leaf ite tree (or constant)
}

type termKey struct {
	op         Op
	w          uint8
	a0, a1, a2 int
	val        uint64
	name       string
}

type TermStore struct {
	tab   map[termKey]*Term
	all   []*Term
	True  *Term
	False *Term
	vars  []*Term
}

func NewTermStore() *TermStore {
	ts := &TermStore{tab: map[termKey]*Term{}}
	ts.True = ts.mk(OpConst, 0, 1, "", nil, nil, nil)
	ts.False = ts.mk(OpConst, 0, 0, "", nil, nil, nil)
	return ts
}

func tid(t *Term) int {
	if t == nil {
		return -1
	}
	return t.id
}

func (ts *TermStore) mk(op Op, w uint8, val uint64, name string, a0, a1, a2 *Term) *Term {
	k := termKey{op, w, tid(a0), tid(a1), tid(a2), val, name}
	if t, ok := ts.tab[k]; ok {
		return t
	}
	t := &Term{id: len(ts.all), op: op, w: w, a: [3]*Term{a0, a1, a2}, val: val, name: name}
	if op == OpConst || (op == OpIte && a1.cl && a2.cl) {
		t.cl = true
	}
	ts.tab[k] = t
	ts.all = append(ts.all, t)
	if op == OpVar {
		ts.vars = append(ts.vars, t)
	}
	return t
}

func mask(w uint8) uint64 {
	if w >= 64 {
		return ^uint64(0)
	}
	return (uint64(1) << w) - 1
}

func (t *Term) IsConst() bool { return t.op == OpConst }
func (t *Term) IsTrue() bool  { return t.op == OpConst && t.w == 0 && t.val == 1 }
func (t *Term) IsFalse() bool { return t.op == OpConst && t.w == 0 && t.val == 0 }

// signed value of a constant
func (t *Term) Int64() int64 { return sext(t.val, t.w) }

func sext(v uint64, w uint8) int64 {
	if w >= 64 {
		return int64(v)
	}
	if v&(uint64(1)<<(w-1)) != 0 {
		return int64(v | ^mask(w))
	}
	return int64(v)
}

func (ts *TermStore) Const(w uint8, v uint64) *Term {
	if w == 0 {
		if v != 0 {
			return ts.True
		}
		return ts.False
	}
	return ts.mk(OpConst, w, v&mask(w), "", nil, nil, nil)
}

func (ts *TermStore) Bool(b bool) *Term {
	if b {
		return ts.True
	}
	return ts.False
}

func (ts *TermStore) Var(w uint8, name string) *Term {
	return ts.mk(OpVar, w, 0, name, nil, nil, nil)
}

func (ts *TermStore) Not(a *Term) *Term {
	if a.op == OpConst {
		return ts.Bool(a.val == 0)
	}
	if a.op == OpNot {
		return a.a[0]
	}
	return ts.mk(OpNot, 0, 0, "", a, nil, nil)
}

func (ts *TermStore) And(a, b *Term) *Term {
	if a.IsFalse() || b.IsFalse() {
		return ts.False
	}
	if a.IsTrue() {
		return b
	}
	if b.IsTrue() {
		return a
	}
	if a == b {
		return a
	}
	if a.id > b.id {
		a, b = b, a
	}
	return ts.mk(OpAnd, 0, 0, "", a, b, nil)
}

func (ts *TermStore) Or(a, b *Term) *Term {
	if a.IsTrue() || b.IsTrue() {
		return ts.True
	}
	if a.IsFalse() {
		return b
	}
	if b.IsFalse() {
		return a
	}
	if a == b {
		return a
	}
	if a.id > b.id {
		a, b = b, a
	}
	return ts.mk(OpOr, 0, 0, "", a, b, nil)
}

func (ts *TermStore) Implies(a, b *Term) *Term { return ts.Or(ts.Not(a), b) }

func (ts *TermStore) Eq(a, b *Term) *Term {
	if a == b {
		return ts.True
	}
	if a.w != b.w {
		panic(fmt.Sprintf("Eq width mismatch %d %d", a.w, b.w))
	}
	if a.op == OpConst && b.op == OpConst {
		return ts.Bool(a.val == b.val)
	}
	if a.w == 0 {
		if a.IsTrue() {
			return b
		}
		if b.IsTrue() {
			return a
		}
		if a.IsFalse() {
			return ts.Not(b)
		}
		if b.IsFalse() {
			return ts.Not(a)
		}
	}
	// ite-tree with constant leaves == constant: push the comparison into the leaves
	if b.op == OpConst && a.op == OpIte && a.cl {
		return ts.mapLeaves(a, func(l *Term) *Term { return ts.Bool(l.val == b.val) }, map[*Term]*Term{})
	}
	if a.op == OpConst && b.op == OpIte && b.cl {
		return ts.mapLeaves(b, func(l *Term) *Term { return ts.Bool(l.val == a.val) }, map[*Term]*Term{})
	}
	if a.id > b.id {
		a, b = b, a
	}
	return ts.mk(OpEq, 0, 0, "", a, b, nil)
}

// mapLeaves applies f to every constant leaf of a constant-leaf ite tree.
func (ts *TermStore) mapLeaves(t *Term, f func(*Term) *Term, memo map[*Term]*Term) *Term {
	if t.op == OpConst {
		return f(t)
	}
	if r, ok := memo[t]; ok {
		return r
	}
	r := ts.Ite(t.a[0], ts.mapLeaves(t.a[1], f, memo), ts.mapLeaves(t.a[2], f, memo))
	memo[t] = r
	return r
}

func (ts *TermStore) Ite(c, a, b *Term) *Term {
	if c.IsTrue() {
		return a
	}
	if c.IsFalse() {
		return b
	}
	if a == b {
		return a
	}
	if a.w != b.w {
		panic("Ite width mismatch")
	}
	if a.w == 0 {
		if a.IsTrue() && b.IsFalse() {
			return c
		}
		if a.IsFalse() && b.IsTrue() {
			return ts.Not(c)
		}
		if a.IsTrue() {
			return ts.Or(c, b)
		}
		if a.IsFalse() {
			return ts.And(ts.Not(c), b)
		}
		if b.IsTrue() {
			return ts.Or(ts.Not(c), a)
		}
		if b.IsFalse() {
			return ts.And(c, a)
		}
	}
	return ts.mk(OpIte, a.w, 0, "", c, a, b)
}

func (ts *TermStore) Bin(op Op, a, b *Term) *Term {
	if a.w != b.w {
		panic(fmt.Sprintf("Bin %s width mismatch %d %d", opNames[op], a.w, b.w))
	}
	w := a.w
	m := mask(w)
	if a.op == OpConst && b.op == OpConst {
		x, y := a.val, b.val
		switch op {
		case OpAdd:
			return ts.Const(w, x+y)
		case OpSub:
			return ts.Const(w, x-y)
		case OpMul:
			return ts.Const(w, x*y)
		case OpUDiv:
			if y == 0 {
				return ts.Const(w, m)
			}
			return ts.Const(w, x/y)
		case OpURem:
			if y == 0 {
				return ts.Const(w, x)
			}
			return ts.Const(w, x%y)
		case OpSDiv:
			sx, sy := sext(x, w), sext(y, w)
			if sy == 0 {
				if sx < 0 {
					return ts.Const(w, 1)
				}
				return ts.Const(w, m)
			}
			if sy == -1 {
				return ts.Const(w, uint64(-sx))
			}
			return ts.Const(w, uint64(sx/sy))
		case OpSRem:
			sx, sy := sext(x, w), sext(y, w)
			if sy == 0 {
				return ts.Const(w, x)
			}
			if sy == -1 {
				return ts.Const(w, 0)
			}
			return ts.Const(w, uint64(sx%sy))
		case OpBAnd:
			return ts.Const(w, x&y)
		case OpBOr:
			return ts.Const(w, x|y)
		case OpBXor:
			return ts.Const(w, x^y)
		case OpShl:
			if y >= uint64(w) {
				return ts.Const(w, 0)
			}
			return ts.Const(w, x<<y)
		case OpLshr:
			if y >= uint64(w) {
				return ts.Const(w, 0)
			}
			return ts.Const(w, x>>y)
		case OpAshr:
			sx := sext(x, w)
			if y >= uint64(w) {
				y = uint64(w) - 1
			}
			return ts.Const(w, uint64(sx>>y))
		case OpUlt:
			return ts.Bool(x < y)
		case OpUle:
			return ts.Bool(x <= y)
		case OpSlt:
			return ts.Bool(sext(x, w) < sext(y, w))
		case OpSle:
			return ts.Bool(sext(x, w) <= sext(y, w))
		}
	}
	if a.op == OpIte && a.cl && b.op == OpConst {
		return ts.mapLeaves(a, func(l *Term) *Term { return ts.Bin(op, l, b) }, map[*Term]*Term{})
	}
	if b.op == OpIte && b.cl && a.op == OpConst {
		return ts.mapLeaves(b, func(l *Term) *Term { return ts.Bin(op, a, l) }, map[*Term]*Term{})
	}
	// light algebraic simplification
	switch op {
	case OpAdd:
		if a.op == OpConst && a.val == 0 {
			return b
		}
		if b.op == OpConst && b.val == 0 {
			return a
		}
	case OpSub:
		if b.op == OpConst && b.val == 0 {
			return a
		}
		if a == b {
			return ts.Const(w, 0)
		}
	case OpBAnd:
		if (a.op == OpConst && a.val == 0) || (b.op == OpConst && b.val == 0) {
			return ts.Const(w, 0)
		}
		if a.op == OpConst && a.val == m {
			return b
		}
		if b.op == OpConst && b.val == m {
			return a
		}
	case OpBOr, OpBXor:
		if a.op == OpConst && a.val == 0 {
			return b
		}
		if b.op == OpConst && b.val == 0 {
			return a
		}
	case OpShl, OpLshr, OpAshr:
		if b.op == OpConst && b.val == 0 {
			return a
		}
	case OpUlt:
		if a == b {
			return ts.False
		}
		if b.op == OpConst && b.val == 0 {
			return ts.False
		}
	case OpUle:
		if a == b {
			return ts.True
		}
		if a.op == OpConst && a.val == 0 {
			return ts.True
		}
	case OpSlt:
		if a == b {
			return ts.False
		}
	case OpSle:
		if a == b {
			return ts.True
		}
	}
	rw := w
	switch op {
	case OpUlt, OpUle, OpSlt, OpSle:
		rw = 0
	}
	return ts.mk(op, rw, 0, "", a, b, nil)
}

func (ts *TermStore) Un(op Op, a *Term) *Term {
	if a.op == OpConst {
		switch op {
		case OpBNot:
			return ts.Const(a.w, ^a.val)
		case OpNeg:
			return ts.Const(a.w, -a.val)
		}
	}
	return ts.mk(op, a.w, 0, "", a, nil, nil)
}

func (ts *TermStore) Extract(a *Term, hi, lo uint8) *Term {
	if lo == 0 && hi == a.w-1 {
		return a
	}
	w := hi - lo + 1
	if a.op == OpConst {
		return ts.Const(w, a.val>>lo)
	}
	if a.op == OpIte && a.cl {
		return ts.mapLeaves(a, func(l *Term) *Term { return ts.Const(w, l.val>>lo) }, map[*Term]*Term{})
	}
	// extract of zext/sext within the original width
	if (a.op == OpZext || a.op == OpSext) && hi < a.a[0].w {
		return ts.Extract(a.a[0], hi, lo)
	}
	if a.op == OpConcat {
		lw := a.a[1].w
		if hi < lw {
			return ts.Extract(a.a[1], hi, lo)
		}
		if lo >= lw {
			return ts.Extract(a.a[0], hi-lw, lo-lw)
		}
	}
	return ts.mk(OpExtract, w, uint64(hi)<<8|uint64(lo), "", a, nil, nil)
}

func (ts *TermStore) Zext(a *Term, w uint8) *Term {
	if w == a.w {
		return a
	}
	if w < a.w {
		return ts.Extract(a, w-1, 0)
	}
	if a.op == OpConst {
		return ts.Const(w, a.val)
	}
	if a.op == OpIte && a.cl {
		return ts.mapLeaves(a, func(l *Term) *Term { return ts.Const(w, l.val) }, map[*Term]*Term{})
	}
	return ts.mk(OpZext, w, 0, "", a, nil, nil)
}

func (ts *TermStore) Sext(a *Term, w uint8) *Term {
	if w == a.w {
		return a
	}
	if w < a.w {
		return ts.Extract(a, w-1, 0)
	}
	if a.op == OpConst {
		return ts.Const(w, uint64(sext(a.val, a.w)))
	}
	if a.op == OpIte && a.cl {
		aw := a.w
		return ts.mapLeaves(a, func(l *Term) *Term { return ts.Const(w, uint64(sext(l.val, aw))) }, map[*Term]*Term{})
	}
	return ts.mk(OpSext, w, 0, "", a, nil, nil)
}

func (ts *TermStore) Concat(hi, lo *Term) *Term {
	w := hi.w + lo.w
	if hi.op == OpConst && lo.op == OpConst {
		return ts.Const(w, hi.val<<lo.w|lo.val)
	}
	return ts.mk(OpConcat, w, 0, "", hi, lo, nil)
}

// Eval evaluates t under a model (variable name -> value). Missing variables are 0.
func (ts *TermStore) Eval(t *Term, model map[string]uint64, memo map[*Term]uint64) uint64 {
	if t.op == OpConst {
		return t.val
	}
	if v, ok := memo[t]; ok {
		return v
	}
	var r uint64
	ev := func(x *Term) uint64 { return ts.Eval(x, model, memo) }
	b2u := func(b bool) uint64 {
		if b {
			return 1
		}
		return 0
	}
	switch t.op {
	case OpVar:
		r = model[t.name] & maskB(t.w)
	case OpNot:
		r = 1 - ev(t.a[0])
	case OpAnd:
		r = ev(t.a[0]) & ev(t.a[1])
	case OpOr:
		r = ev(t.a[0]) | ev(t.a[1])
	case OpEq:
		r = b2u(ev(t.a[0]) == ev(t.a[1]))
	case OpIte:
		if ev(t.a[0]) != 0 {
			r = ev(t.a[1])
		} else {
			r = ev(t.a[2])
		}
	case OpExtract:
		hi, lo := uint8(t.val>>8), uint8(t.val&0xff)
		_ = hi
		r = (ev(t.a[0]) >> lo) & mask(t.w)
	case OpZext:
		r = ev(t.a[0])
	case OpSext:
		r = uint64(sext(ev(t.a[0]), t.a[0].w)) & mask(t.w)
	case OpConcat:
		r = ev(t.a[0])<<t.a[1].w | ev(t.a[1])
	case OpBNot, OpNeg:
		c := ts.Un(t.op, ts.Const(t.w, ev(t.a[0])))
		r = c.val
	default:
		c := ts.Bin(t.op, ts.Const(t.a[0].w, ev(t.a[0])), ts.Const(t.a[1].w, ev(t.a[1])))
		r = c.val
	}
	memo[t] = r
	return r
}

func maskB(w uint8) uint64 {
	if w == 0 {
		return 1
	}
	return mask(w)
}

func sortName(w uint8) string {
	if w == 0 {
		return "Bool"
	}
	return fmt.Sprintf("(_ BitVec %d)", w)
}

func constLit(w uint8, v uint64) string {
	if w == 0 {
		if v != 0 {
			return "true"
		}
		return "false"
	}
	if w%4 == 0 {
		return fmt.Sprintf("#x%0*x", int(w/4), v)
	}
	return fmt.Sprintf("#b%0*b", int(w), v)
}

// String renders small terms for diagnostics.
func (t *Term) String() string {
	var sb strings.Builder
	t.render(&sb, 0)
	return sb.String()
}

func (t *Term) render(sb *strings.Builder, depth int) {
	switch t.op {
	case OpConst:
		if t.w == 0 {
			sb.WriteString(constLit(0, t.val))
		} else {
			fmt.Fprintf(sb, "%d", t.val)
		}
		return
	case OpVar:
		sb.WriteString(t.name)
		return
	}
	if depth > 6 {
		fmt.Fprintf(sb, "t!%d", t.id)
		return
	}
	sb.WriteString("(")
	sb.WriteString(opNames[t.op])
	for _, a := range t.a {
		if a == nil {
			break
		}
		sb.WriteString(" ")
		a.render(sb, depth+1)
	}
	sb.WriteString(")")
}

// Vars collects the variables a term depends on.
func (t *Term) Vars(seen map[*Term]bool, out *[]*Term) {
	if seen[t] {
		return
	}
	seen[t] = true
	if t.op == OpVar {
		*out = append(*out, t)
		return
	}
	for _, a := range t.a {
		if a == nil {
			break
		}
		a.Vars(seen, out)
	}
}
