#!/bin/sh
# C10 partial-write demonstration: needs the File.Write hook overlay in internal/utils/os.
VERIF="$(cd "$(dirname "$0")/.." && pwd)"
REPO="${VERIF_REPO:-/repo}"
export GOFLAGS=-mod=mod GOPROXY=off GOSUMDB=off GOTOOLCHAIN=local
TMP="$(mktemp -d /tmp/verif-demo.XXXXXX)"; trap 'rm -rf "$TMP"' EXIT
cat > "$TMP/overlay.json" <<EOT
{"Replace":{"$REPO/internal/utils/os/zz_demo_write_hook.go":"$VERIF/findings/C10-partial-write/write_hook.go",
"$REPO/pkg/inline/zz_demo_c10_test.go":"$VERIF/findings/C10-partial-write/demo_test.go"}}
EOT
cd "$REPO" && timeout 600 go test -vet=off -count=1 -overlay "$TMP/overlay.json" -run 'TestDemoC10' ./pkg/inline 2>&1
