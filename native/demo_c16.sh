#!/bin/sh
# C16 window demonstration: the pinned lazy_send.go (+ a delay hook in the window) replaces the
# current file by overlay; the test holds the window open deterministically.
VERIF="$(cd "$(dirname "$0")/.." && pwd)"
REPO="${VERIF_REPO:-/repo}"
export GOFLAGS=-mod=mod GOPROXY=off GOSUMDB=off GOTOOLCHAIN=local
TMP="$(mktemp -d /tmp/verif-demo.XXXXXX)"; trap 'rm -rf "$TMP"' EXIT
cp "$VERIF/findings/C16-stranded-job/lazy_send_pinned_with_delay.go.txt" "$TMP/lazy_send.go"
cat > "$TMP/overlay.json" <<EOT
{"Replace":{"$REPO/internal/utils/wpool/lazy_send.go":"$TMP/lazy_send.go",
"$REPO/internal/utils/wpool/zz_demo_window_test.go":"$VERIF/findings/C16-stranded-job/window_test.go"}}
EOT
cd "$REPO" && timeout 300 go test -vet=off -count=1 -overlay "$TMP/overlay.json" -run 'TestDemoC16Window' ./internal/utils/wpool 2>&1
