#!/bin/sh
# Native execution of a sequential harness with the ordinary Go tool chain (real compiler, real code):
#   native/run.sh <package dir relative to repo> <HarnessFunc> [replay.json]
# Without a replay file every symbolic input is 0 and every Choice 0 (a differential smoke run);
# with one, the solver's model and the recorded choices drive the run and a failing nd.Assert
# fails the test.
set -e
REL="$1"; FN="$2"; REPLAY="$3"
VERIF="$(cd "$(dirname "$0")/.." && pwd)"
REPO="${VERIF_REPO:-/repo}"
export GOFLAGS=-mod=mod GOPROXY=off GOSUMDB=off GOTOOLCHAIN=local
TMP="$(mktemp -d /tmp/verif-native.XXXXXX)"
trap 'rm -rf "$TMP"' EXIT
PKG="$(grep -h '^package ' "$VERIF/harness/$REL"/zz_verif_*.go | head -1 | awk '{print $2}')"
cat > "$TMP/native_test.go" <<EOT
//go:build verif

package $PKG

import (
	"testing"

	nd "github.com/glebziz/fs_db/internal/verifnd"
)

func TestVerifNative(t *testing.T) {
	$FN()
	if nd.Skipped {
		t.Log("an assumption does not hold for these values")
	}
	if len(nd.Failed) > 0 {
		t.Fatalf("NATIVE-ASSERT-FAILED %v", nd.Failed)
	}
}
EOT
{
  printf '{"Replace":{'
  first=1
  for f in $(cd "$VERIF/harness" && find . -name '*.go' | sed 's|^\./||'); do
    [ $first = 1 ] || printf ','
    first=0
    printf '"%s":"%s"' "$REPO/$f" "$VERIF/harness/$f"
  done
  printf ',"%s":"%s"' "$REPO/$REL/zz_verif_native_test.go" "$TMP/native_test.go"
  printf '}}'
} > "$TMP/overlay.json"
cd "$REPO"
mkdir -p "$TMP/scratch"
# scratch directories of the harness (nd.ScratchDir) go below $TMP and disappear with it; GOTMPDIR keeps the build where it was
GOTMPDIR="${GOTMPDIR:-/tmp}" TMPDIR="$TMP/scratch" VERIF_REPLAY="$REPLAY" timeout 300 go test -tags verif -vet=off -count=1 -overlay "$TMP/overlay.json" -run 'TestVerifNative$' "./$REL" 2>&1
