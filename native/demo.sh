#!/bin/sh
# Runs demonstration tests natively against a repository tree, adding them by build overlay:
#   native/demo.sh <package dir relative to repo> <test file>... 
# Exit 0 = tests pass. VERIF_REPO selects the tree (default /repo).
set -e
REL="$1"; shift
VERIF="$(cd "$(dirname "$0")/.." && pwd)"
REPO="${VERIF_REPO:-/repo}"
export GOFLAGS=-mod=mod GOPROXY=off GOSUMDB=off GOTOOLCHAIN=local
TMP="$(mktemp -d /tmp/verif-demo.XXXXXX)"
trap 'rm -rf "$TMP"' EXIT
{
  printf '{"Replace":{'
  first=1
  for f in "$@"; do
    case "$f" in /*) src="$f";; *) src="$VERIF/$f";; esac
    [ $first = 1 ] || printf ','
    first=0
    printf '"%s":"%s"' "$REPO/$REL/zz_demo_$(basename "$f")" "$src"
  done
  printf '}}'
} > "$TMP/overlay.json"
cd "$REPO"
timeout 600 go test ${DEMO_RACE:+-race} ${DEMO_TAGS:+-tags "$DEMO_TAGS"} -ldflags=-checklinkname=0 -vet=off -count=1 -overlay "$TMP/overlay.json" -run 'TestDemo' "./$REL" 2>&1
