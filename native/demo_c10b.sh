#!/bin/sh
# C10 double hand-over demonstration: needs the File.Write hook overlay in internal/utils/os.
VERIF="$(cd "$(dirname "$0")/.." && pwd)"
REPO="${VERIF_REPO:-/repo}"
export GOFLAGS=-mod=mod GOPROXY=off GOSUMDB=off GOTOOLCHAIN=local
TMP="$(mktemp -d /tmp/verif-demo.XXXXXX)"; trap 'rm -rf "$TMP"' EXIT
cat > "$TMP/overlay.json" <<EOT
{"Replace":{"$REPO/internal/utils/os/zz_demo_write_hook.go":"$VERIF/findings/C10-partial-write/write_hook.go",
"$REPO/internal/usecase/store/zz_demo_c10b_test.go":"$VERIF/findings/C10-double-handover/demo_test.go"}}
EOT
cd "$REPO" && timeout 600 go test -vet=off -count=1 -overlay "$TMP/overlay.json" -run 'TestDemoC10' ./internal/usecase/store 2>&1
