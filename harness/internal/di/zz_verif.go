//go:build verif

package di

import "github.com/glebziz/fs_db/config"

// VerifConfig returns the configuration the container was built with (overlay only).
func VerifConfig(c *Container) config.Config { return c.cfg }
