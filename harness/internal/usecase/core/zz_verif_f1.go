//go:build verif

package core

import (
	"context"
	"errors"

	"github.com/glebziz/fs_db"
	"github.com/glebziz/fs_db/internal/model"
	mcore "github.com/glebziz/fs_db/internal/model/core"
	"github.com/glebziz/fs_db/internal/model/sequence"
	"github.com/glebziz/fs_db/internal/model/transactor"
	nd "github.com/glebziz/fs_db/internal/verifnd"
)

// F1 harnesses (DESIGN 4.4): an arbitrary pre-state satisfying the representation invariant is
// constructed with the real Store calls under a symbolic process counter, one real operation is
// run, and the result is compared with the reference model of DESIGN 4.3 kept as ghost state.

// ---------- stub fileRepository: records calls, RunTransaction atomic, may fail ----------

type verifRepo struct {
	sets    []model.File // durable writes in order
	txBuf   []model.File
	inTx    bool
	txCount int
	txSizes []int
	failSet bool // the next Set fails
	failTx  bool // the next RunTransaction fails after running its closure
	all     []model.File
	allErr  error
}

var errVerifStorage = errors.New("storage failure")

func (r *verifRepo) Set(ctx context.Context, f model.File) error {
	if r.failSet {
		r.failSet = false
		return errVerifStorage
	}
	if r.inTx {
		r.txBuf = append(r.txBuf, f)
	} else {
		r.sets = append(r.sets, f)
	}
	return nil
}

func (r *verifRepo) GetAll(ctx context.Context) ([]model.File, error) {
	return r.all, r.allErr
}

func (r *verifRepo) RunTransaction(ctx context.Context, fn transactor.TransactionFn) error {
	r.inTx = true
	r.txBuf = nil
	err := fn(ctx)
	r.inTx = false
	if err == nil && r.failTx {
		r.failTx = false
		err = errVerifStorage
	}
	if err != nil {
		r.txBuf = nil
		return err
	}
	r.txCount++
	r.txSizes = append(r.txSizes, len(r.txBuf))
	r.sets = append(r.sets, r.txBuf...)
	r.txBuf = nil
	return nil
}

// ---------- ghost state ----------

const (
	verifT1 = "11111111-1111-4111-8111-111111111111"
	verifT2 = "22222222-2222-4222-8222-222222222222"
)

var (
	verifTxIds = []string{model.MainTxId, verifT1, verifT2}
	verifKeys  = []string{"a", "b"}
	verifCids  = []string{"c00", "c01", "c02", "c03", "c04", "c05", "c06", "c07", "c08", "c09", "c10", "c11", "c12", "c13", "c14", "c15"}
)

type verifVer struct {
	seq   sequence.Seq
	owner int // index into verifTxIds
	key   string
	cid   string
	pos   int // event position (creation order == sequence order)
}

type verifState struct {
	u        *UseCase
	repo     *verifRepo
	vs       []verifVer // live versions in creation order
	begun    [3]bool
	begin    [3]sequence.Seq
	beginPos [3]int
	clock    int
	ncid     int
	ctx      context.Context
	order    int // map iteration order outside the permuted scope: 0 insertion, 1 reverse
	permT    int // reader / level whose GetFiles runs under every map order (-1: none)
	permLv   int
}

func verifNewState() *verifState {
	repo := &verifRepo{}
	s := &verifState{u: New(repo), repo: repo, ctx: context.Background(), permT: -1}
	s.order = nd.Choice("maporder", 2)
	nd.SetMapOrder(s.order)
	// the main transaction exists after Load (I5)
	_, err := s.u.Load(s.ctx)
	nd.Assert(err == nil, "F1.load")
	// arbitrary process counter, far from wrap-around (6.2)
	c := nd.U64("counter0")
	nd.Assume(c < 1<<62)
	sequence.VerifSetCounter(c)
	return s
}

// jump advances the process counter by an arbitrary amount (other activity in the process).
func (s *verifState) jump() {
	c := nd.U64("counter")
	nd.Assume(nd.And(c >= sequence.VerifCounter(), c < 1<<62))
	sequence.VerifSetCounter(c)
}

func (s *verifState) store(owner int, key string) {
	s.jump()
	cid := verifCids[s.ncid]
	s.ncid++
	err := s.u.Store(s.ctx, model.File{Key: key, TxId: verifTxIds[owner], ContentId: cid})
	nd.Assert(err == nil, "F1.store")
	seq := sequence.Seq(sequence.VerifCounter())
	s.clock++
	s.vs = append(s.vs, verifVer{seq: seq, owner: owner, key: key, cid: cid, pos: s.clock})
}

func (s *verifState) beginTx(t int) {
	s.jump()
	s.begin[t] = sequence.Next()
	s.begun[t] = true
	s.clock++
	s.beginPos[t] = s.clock
}

// verifBuildState: E events chosen from {store(owner,key), begin(t)}; ill-formed scripts are dropped.
func verifBuildState(maxEvents int) *verifState {
	s := verifNewState()
	e := nd.Choice("events", maxEvents+1)
	for i := 0; i < e; i++ {
		ev := nd.Choice("ev", 8)
		switch {
		case ev < 2:
			s.store(0, verifKeys[ev])
		case ev < 6:
			t := 1 + (ev-2)/2
			if !s.begun[t] {
				nd.Assume(false)
			}
			s.store(t, verifKeys[(ev-2)%2])
		default:
			t := ev - 5
			if s.begun[t] {
				nd.Assume(false)
			}
			// canonical order: t2 begins only after t1 (symmetry)
			if t == 2 && !s.begun[1] {
				nd.Assume(false)
			}
			s.beginTx(t)
		}
	}
	return s
}

// ---------- reference model (DESIGN 4.3) ----------

func (s *verifState) lastOf(owner int, key string) (verifVer, bool) {
	for i := len(s.vs) - 1; i >= 0; i-- {
		if s.vs[i].owner == owner && s.vs[i].key == key {
			return s.vs[i], true
		}
	}
	return verifVer{}, false
}

// visible: what a reader (transaction index t, 0 = autocommit) at the given level must see.
func (s *verifState) visible(t int, level model.TxIsoLevel, key string) (verifVer, bool) {
	switch level {
	case fs_db.IsoLevelReadUncommitted:
		for i := len(s.vs) - 1; i >= 0; i-- {
			if s.vs[i].key == key {
				return s.vs[i], true
			}
		}
		return verifVer{}, false
	case fs_db.IsoLevelReadCommitted:
		own, okO := s.lastOf(t, key)
		mn, okM := s.lastOf(0, key)
		if okO && (!okM || own.pos > mn.pos) {
			return own, true
		}
		return mn, okM
	}
	// snapshot levels
	if t != 0 {
		if own, ok := s.lastOf(t, key); ok {
			return own, true
		}
	}
	for i := len(s.vs) - 1; i >= 0; i-- {
		if s.vs[i].owner == 0 && s.vs[i].key == key && s.vs[i].pos < s.beginPos[t] {
			return s.vs[i], true
		}
	}
	return verifVer{}, false
}

func verifFilter(level model.TxIsoLevel, begin sequence.Seq) model.FileFilter {
	var f model.FileFilter
	main := model.MainTxId
	switch level {
	case fs_db.IsoLevelReadUncommitted:
	case fs_db.IsoLevelReadCommitted:
		f.TxId = &main
	default:
		f.TxId = &main
		b := begin
		f.BeforeSeq = &b
	}
	return f
}

// checkReads compares Get and GetFiles of every reader at every level with the reference model.
func (s *verifState) checkReads(id string) {
	keys := []string{"a", "b", "zz"}
	for t := 0; t < 3; t++ {
		if t != 0 && !s.begun[t] {
			continue
		}
		for lv := 0; lv < 4; lv++ {
			level := model.TxIsoLevel(lv)
			if t == 0 && level != fs_db.IsoLevelReadCommitted {
				continue // autocommit reads are ReadCommitted with no own writes
			}
			flt := verifFilter(level, s.begin[t])
			want := 0
			for _, k := range keys {
				got, err := s.u.Get(s.ctx, verifTxIds[t], k, flt)
				exp, ok := s.visible(t, level, k)
				if !ok {
					nd.Assert(errors.Is(err, fs_db.ErrNotFound), id+".get-notfound")
					continue
				}
				want++
				nd.Assert(err == nil, id+".get-found")
				nd.Assert(nd.And(got.ContentId == exp.cid, got.Seq == exp.seq, got.Key == k, got.TxId == verifTxIds[exp.owner]), id+".get-value")
			}
			if s.permT == t && s.permLv == lv {
				nd.SetMapOrder(2) // every iteration order of every map inside this call
			}
			files, err := s.u.GetFiles(s.ctx, verifTxIds[t], flt)
			nd.SetMapOrder(s.order)
			nd.Assert(err == nil, id+".getfiles-ok")
			nd.Assert(len(files) == want, id+".getfiles-count")
			for _, f := range files {
				exp, ok := s.visible(t, level, f.Key)
				nd.Assert(ok, id+".getfiles-listed-invisible")
				if ok {
					nd.Assert(nd.And(f.ContentId == exp.cid, f.Seq == exp.seq), id+".getfiles-value")
				}
			}
			for i := range files {
				for j := i + 1; j < len(files); j++ {
					nd.Assert(files[i].Key != files[j].Key, id+".getfiles-duplicate")
				}
			}
		}
	}
}

// checkInv asserts I1-I5 (and the order part of I3/I6) on the real structures against the ghost.
func (s *verifState) checkInv(id string) {
	for t := 0; t < 3; t++ {
		tx, ok := s.u.txStore.Get(verifTxIds[t])
		if t == 0 {
			nd.Assert(ok, id+".main-present")
		}
		for _, k := range verifKeys {
			var want []verifVer
			for _, v := range s.vs {
				if v.owner == t && v.key == k {
					want = append(want, v)
				}
			}
			var got []model.File
			shape := true
			if ok {
				got, shape = mcore.VerifDump(tx, k)
			}
			nd.Assert(shape, id+".list-shape-or-mirror")
			nd.Assert(len(got) == len(want), id+".list-length")
			if len(got) != len(want) {
				continue
			}
			for i := range want {
				nd.Assert(nd.And(got[i].Seq == want[i].seq, got[i].ContentId == want[i].cid, got[i].TxId == verifTxIds[t], got[i].Key == k), id+".list-content")
			}
			if ok {
				nd.Assert(mcore.VerifLinks(tx, &s.u.allStore, k), id+".links")
			}
		}
	}
	// the all-store holds every live version of a key, in sequence order
	for _, k := range verifKeys {
		var want []verifVer
		for _, v := range s.vs {
			if v.key == k {
				want = append(want, v)
			}
		}
		got, shape := mcore.VerifDump(&s.u.allStore, k)
		nd.Assert(shape, id+".allstore-shape")
		nd.Assert(len(got) == len(want), id+".allstore-length")
		if len(got) != len(want) {
			continue
		}
		for i := range want {
			nd.Assert(nd.And(got[i].Seq == want[i].seq, got[i].ContentId == want[i].cid), id+".allstore-content")
		}
	}
	// I7: the object pools hold nothing that is still in use, and nothing twice
	var liveTx []*mcore.Transaction
	var liveNodes []*mcore.Node[model.File]
	for t := 0; t < 3; t++ {
		if tx, ok := s.u.txStore.Get(verifTxIds[t]); ok {
			liveTx = append(liveTx, tx)
			for _, k := range verifKeys {
				liveNodes = append(liveNodes, mcore.VerifNodes(tx, k)...)
			}
		}
	}
	for _, k := range verifKeys {
		liveNodes = append(liveNodes, mcore.VerifNodes(&s.u.allStore, k)...)
	}
	nd.Assert(mcore.VerifPoolSound(s.u.txPool, liveTx), id+".pool-holds-a-live-transaction-store")
	nd.Assert(mcore.VerifPoolSound(&s.u.nodePool, liveNodes), id+".pool-holds-a-live-node")
	// I3/I6: strictly increasing along creation order, all <= counter
	for i := range s.vs {
		if i > 0 {
			nd.Assert(s.vs[i-1].seq < s.vs[i].seq, id+".seq-order")
		}
		nd.Assert(uint64(s.vs[i].seq) <= sequence.VerifCounter(), id+".seq-le-counter")
	}
}

func verifEvents() int {
	if nd.Tier() == 1 {
		return 5
	}
	return 4
}

// VerifH02: C02 inductive read step. Every reader, every level, every key, Get and GetFiles.
func VerifH02() {
	s := verifBuildState(verifEvents())
	nd.Bound("F1.max_events", verifEvents())
	s.checkInv("H02.inv")
	s.checkReads("H02")
	nd.Reach("H02.end")
}

// VerifH02b: GetFiles / mergeFiles under every iteration order of every map it ranges over,
// for one reader and level at a time.
func VerifH02b() {
	s := verifBuildState(4) // the permutation of every map order multiplies the paths: 4 events in both tiers
	s.permT = nd.Choice("reader", 3)
	if s.permT != 0 && !s.begun[s.permT] {
		nd.Assume(false)
	}
	s.permLv = nd.Choice("level", 4)
	if s.permT == 0 {
		s.permLv = int(fs_db.IsoLevelReadCommitted)
	}
	s.checkReads("H02b")
	nd.Reach("H02b.end")
}

func (s *verifState) ownVersions(t int) []verifVer {
	var out []verifVer
	for _, v := range s.vs {
		if v.owner == t {
			out = append(out, v)
		}
	}
	return out
}

func verifSameCids(got []model.File, want []string) bool {
	if len(got) != len(want) {
		return false
	}
	for _, w := range want {
		n := 0
		for _, g := range got {
			if g.ContentId == w {
				n++
			}
		}
		if n != 1 {
			return false
		}
	}
	return true
}

// VerifH03a: C03 inductive commit step (core.UpdateTx).
func VerifH03a() {
	s := verifBuildState(verifEvents())
	t := 1 + nd.Choice("committer", 2)
	if !s.begun[t] {
		nd.Assume(false)
	}
	snapshot := nd.Choice("snapshot-level", 2) == 1
	fault := nd.Choice("fault", 3) // 0 none, 1 a Set inside the storage transaction fails, 2 the storage transaction fails at commit
	var flt model.FileFilter
	if snapshot {
		b := s.begin[t]
		flt.BeforeSeq = &b
	}
	own := s.ownVersions(t)
	// expected conflict: some written key has a main version committed after begin
	conflict := false
	written := map[string]verifVer{}
	var wkeys []string
	for _, v := range own {
		if _, ok := written[v.key]; !ok {
			wkeys = append(wkeys, v.key)
		}
		written[v.key] = v // last own version per key
	}
	for _, k := range wkeys {
		if mn, ok := s.lastOf(0, k); ok && mn.pos > s.beginPos[t] {
			conflict = true
		}
	}
	conflict = conflict && snapshot
	maxPre := sequence.Seq(sequence.VerifCounter())
	setsBefore, txBefore := len(s.repo.sets), s.repo.txCount
	if fault == 1 {
		s.repo.failSet = true
	}
	if fault == 2 {
		s.repo.failTx = true
	}
	s.jump()
	nd.SetMapOrder(2)
	del, err := s.u.UpdateTx(s.ctx, verifTxIds[t], model.MainTxId, flt)
	nd.SetMapOrder(s.order)
	s.repo.failSet, s.repo.failTx = false, false

	if conflict {
		nd.Assert(errors.Is(err, fs_db.ErrTxSerialization), "H03a.conflict-detected")
		nd.Reach("H03a.conflict")
	} else {
		nd.Assert(!errors.Is(err, fs_db.ErrTxSerialization), "H03a.spurious-conflict")
	}
	failed := conflict || (fault != 0 && len(own) > 0)
	var allOwn, nonLast []string
	for _, v := range own {
		allOwn = append(allOwn, v.cid)
		if written[v.key].cid != v.cid {
			nonLast = append(nonLast, v.cid)
		}
	}
	// ghost transition
	var rest []verifVer
	for _, v := range s.vs {
		if v.owner != t {
			rest = append(rest, v)
		}
	}
	s.begun[t] = false
	if failed {
		nd.Assert(err != nil, "H03a.failure-reported")
		nd.Assert(len(s.repo.sets) == setsBefore, "H03a.failed-commit-wrote")
		nd.Assert(verifSameCids(del, allOwn), "H03a.failed-commit-delete-list")
		s.vs = rest
		if !conflict {
			nd.Reach("H03a.storage-failure")
		}
	} else {
		nd.Assert(err == nil, "H03a.success")
		nd.Assert(verifSameCids(del, nonLast), "H03a.delete-list")
		if len(wkeys) > 0 {
			nd.Assert(s.repo.txCount == txBefore+1, "H03a.one-storage-transaction")
			nd.Assert(len(s.repo.sets) == setsBefore+len(wkeys), "H03a.one-set-per-key")
			nd.Reach("H03a.committed")
		} else {
			nd.Assert(len(s.repo.sets) == setsBefore, "H03a.empty-commit-writes-nothing")
		}
		// the durable records: main owner, last own content, fresh sequence numbers; the new
		// versions take these sequence numbers in memory
		if len(s.repo.sets) == setsBefore+len(wkeys) {
			for _, rec := range s.repo.sets[setsBefore:] {
				w, ok := written[rec.Key]
				nd.Assert(ok, "H03a.record-for-unwritten-key")
				nd.Assert(nd.And(rec.TxId == model.MainTxId, rec.ContentId == w.cid), "H03a.record-content")
				nd.Assert(rec.Seq > maxPre, "H03a.record-seq-fresh")
				s.clock++
				rest = append(rest, verifVer{seq: rec.Seq, owner: 0, key: rec.Key, cid: w.cid, pos: s.clock})
			}
		}
		s.vs = rest
	}
	_, still := s.u.txStore.Get(verifTxIds[t])
	nd.Assert(!still, "H03a.tx-store-removed")
	s.checkInv("H03a.inv")
	s.checkReads("H03a.post")
	// committing again through the same id is a no-op
	del2, err2 := s.u.UpdateTx(s.ctx, verifTxIds[t], model.MainTxId, flt)
	nd.Assert(nd.And(err2 == nil, len(del2) == 0), "H03a.second-commit-noop")
	nd.Reach("H03a.end")
}

// VerifH03b: rollback (core.DeleteTx).
func VerifH03b() {
	s := verifBuildState(verifEvents())
	t := 1 + nd.Choice("victim", 2)
	if !s.begun[t] {
		nd.Assume(false)
	}
	var allOwn []string
	var rest []verifVer
	for _, v := range s.vs {
		if v.owner == t {
			allOwn = append(allOwn, v.cid)
		} else {
			rest = append(rest, v)
		}
	}
	sets := len(s.repo.sets)
	nd.SetMapOrder(2)
	del := s.u.DeleteTx(s.ctx, verifTxIds[t])
	nd.SetMapOrder(s.order)
	nd.Assert(verifSameCids(del, allOwn), "H03b.delete-list")
	nd.Assert(len(s.repo.sets) == sets, "H03b.rollback-wrote")
	s.vs = rest
	s.begun[t] = false
	s.checkInv("H03b.inv")
	s.checkReads("H03b.post")
	nd.Assert(len(s.u.DeleteTx(s.ctx, verifTxIds[t])) == 0, "H03b.second-rollback-noop")
	if len(allOwn) > 0 {
		nd.Reach("H03b.nonempty")
	}
	nd.Reach("H03b.end")
}
