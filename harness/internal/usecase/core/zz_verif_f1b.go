//go:build verif

package core

import (
	"context"
	"errors"
	"fmt"

	"github.com/glebziz/fs_db"
	"github.com/glebziz/fs_db/internal/model"
	mcore "github.com/glebziz/fs_db/internal/model/core"
	"github.com/glebziz/fs_db/internal/model/sequence"
	txrepo "github.com/glebziz/fs_db/internal/repository/transaction"
	"github.com/glebziz/fs_db/internal/usecase/cleaner"
	"github.com/glebziz/fs_db/internal/utils/wpool"
	nd "github.com/glebziz/fs_db/internal/verifnd"
)

// ---------- stubs for the cleaner's collaborators: they only record what is asked of them ----------

type verifCleanEnv struct {
	asked []string // content ids handed to the physical deletion phase
}

func (e *verifCleanEnv) Get(ctx context.Context, id string) (model.ContentFile, error) {
	e.asked = append(e.asked, id)
	return model.ContentFile{}, fs_db.ErrNotFound
}
func (e *verifCleanEnv) Delete(ctx context.Context, id string) error { return nil }
func (e *verifCleanEnv) GC()                                         {}

type verifNoContent struct{}

func (verifNoContent) Delete(ctx context.Context, path string) error { return nil }

type verifNoDir struct{}

func (verifNoDir) Add(ctx context.Context, dir model.Dir) error { return nil }

type verifNoFile struct{}

func (verifNoFile) Delete(ctx context.Context, file model.File) error { return nil }

type verifNoSender struct{}

func (verifNoSender) Send(ctx context.Context, event wpool.Event) {}

// VerifH09a: C09 inductive step. The horizon is computed by the real cleaner.DeleteOld prologue
// over the real transaction registry (omap); the collector is the real core.DeleteOld.
func VerifH09a() {
	s := verifNewState()
	reg := txrepo.New()
	env := &verifCleanEnv{}
	cl := cleaner.New(s.u, verifNoContent{}, env, env, verifNoDir{}, verifNoFile{}, verifNoSender{}, reg)
	E := verifEvents()
	e := nd.Choice("events", E+1)
	for i := 0; i < e; i++ {
		ev := nd.Choice("ev", 8)
		switch {
		case ev < 2:
			s.store(0, verifKeys[ev])
		case ev < 6:
			t := 1 + (ev-2)/2
			if !s.begun[t] {
				nd.Assume(false)
			}
			s.store(t, verifKeys[(ev-2)%2])
		default:
			t := ev - 5
			if s.begun[t] || (t == 2 && !s.begun[1]) {
				nd.Assume(false)
			}
			s.beginTx(t)
			nd.Assert(reg.Store(s.ctx, model.Transaction{Id: verifTxIds[t], IsoLevel: model.TxIsoLevel(nd.Choice("level", 4)), Seq: s.begin[t]}) == nil, "H09a.register")
		}
	}
	// optionally the older transaction has already ended (so the oldest is the later one)
	if s.begun[1] && nd.Choice("t1-ended", 2) == 1 {
		_, err := reg.Delete(s.ctx, verifTxIds[1])
		nd.Assert(err == nil, "H09a.unregister")
		nd.Assert(len(s.u.DeleteTx(s.ctx, verifTxIds[1])) >= 0, "H09a.rollback-t1")
		var rest []verifVer
		for _, v := range s.vs {
			if v.owner != 1 {
				rest = append(rest, v)
			}
		}
		s.vs = rest
		s.begun[1] = false
	}
	s.checkReads("H09a.pre")
	// horizon position in the ghost: begin of the oldest open transaction, else "now"
	s.jump()
	horizonPos := s.clock + 1
	if s.begun[1] {
		horizonPos = s.beginPos[1]
	} else if s.begun[2] {
		horizonPos = s.beginPos[2]
	}
	// specification: a main version goes iff it has a main successor (same key) not newer than the horizon
	var expectGone []string
	var kept []verifVer
	for i, v := range s.vs {
		gone := false
		if v.owner == 0 {
			for _, w := range s.vs[i+1:] {
				if w.owner == 0 && w.key == v.key && w.pos < horizonPos {
					gone = true
				}
			}
		}
		if gone {
			expectGone = append(expectGone, v.cid)
		} else {
			kept = append(kept, v)
		}
	}
	nd.SetMapOrder(2)
	err := cl.DeleteOld(s.ctx)
	nd.SetMapOrder(s.order)
	nd.Assert(err == nil, "H09a.deleteold-ok")
	nd.Assert(len(env.asked) == len(expectGone), "H09a.removed-count")
	for _, c := range expectGone {
		n := 0
		for _, a := range env.asked {
			if a == c {
				n++
			}
		}
		nd.Assert(n == 1, "H09a.removed-exactly-the-unreachable")
	}
	if len(expectGone) > 0 {
		nd.Reach("H09a.collected")
	}
	// every read of every open reader at every level is what it was (the full ghost still describes it)
	full := s.vs
	s.checkReads("H09a.post")
	// the structures hold the reduced state
	s.vs = kept
	s.checkInv("H09a.inv")
	s.vs = full
	// idempotence
	env.asked = nil
	nd.Assert(cl.DeleteOld(s.ctx) == nil, "H09a.again-ok")
	nd.Assert(len(env.asked) == 0, "H09a.idempotent")
	// "later": a transaction that begins after the collection reads the same as before it
	if !s.begun[2] {
		nt := 2
		if !s.begun[1] {
			nt = 1
		}
		s.beginTx(nt)
		s.checkReads("H09a.later")
	}
	nd.Reach("H09a.end")
}

// VerifH05a: C05, Load + first write, with an arbitrary process counter before Load.
func VerifH05a() {
	repo := &verifRepo{}
	u := New(repo)
	ctx := context.Background()
	order := nd.Choice("maporder", 2)
	nd.SetMapOrder(order)
	N := 2
	if nd.Tier() == 1 {
		N = 4
	}
	nd.Bound("H05a.max_records", N)
	n := nd.Choice("records", N+1)
	type rec struct {
		f    model.File
		main bool
	}
	recs := make([]rec, n)
	for i := range recs {
		k := verifKeys[nd.Choice("key", 2)]
		main := nd.Choice("owner", 2) == 0
		seq := sequence.Seq(nd.U64("seq"))
		nd.Assume(nd.And(seq > 0, seq < 1<<62))
		for j := 0; j < i; j++ {
			nd.Assume(seq != recs[j].f.Seq) // persisted sequence numbers are pairwise distinct (I6)
		}
		tx := verifT1
		if main {
			tx = model.MainTxId
		}
		recs[i] = rec{model.File{Key: k, TxId: tx, ContentId: verifCids[i], Seq: seq}, main}
		repo.all = append(repo.all, recs[i].f)
	}
	// whatever other database instances this process has opened before: the counter is anywhere
	c := nd.U64("process-counter")
	nd.Assume(c < 1<<62)
	sequence.VerifSetCounter(c)

	nd.SetMapOrder(2)
	del, err := u.Load(ctx)
	nd.SetMapOrder(order)
	nd.Assert(err == nil, "H05a.load-ok")

	// per key the main record with the greatest sequence is the visible one
	main := model.MainTxId
	flt := model.FileFilter{TxId: &main}
	kept := 0
	for _, k := range verifKeys {
		got, gerr := u.Get(ctx, model.MainTxId, k, flt)
		any := false
		for i := range recs {
			if !recs[i].main || recs[i].f.Key != k {
				continue
			}
			any = true
			best := true
			for j := range recs {
				if j != i && recs[j].main && recs[j].f.Key == k {
					best = nd.And(best, recs[j].f.Seq < recs[i].f.Seq)
				}
			}
			nd.Assert(nd.Implies(best, nd.And(gerr == nil, got.ContentId == recs[i].f.ContentId, got.Seq == recs[i].f.Seq)), "H05a.highest-main-wins")
		}
		if !any {
			nd.Assert(errors.Is(gerr, fs_db.ErrNotFound), "H05a.no-main-record-not-found")
		} else {
			kept++
		}
	}
	// everything else is scheduled for deletion, exactly once
	nd.Assert(len(del) == n-kept, "H05a.delete-list-size")
	for i := range recs {
		cnt := 0
		for _, d := range del {
			if d.ContentId == recs[i].f.ContentId {
				cnt++
			}
		}
		if !recs[i].main {
			nd.Assert(cnt == 1, "H05a.uncommitted-scheduled")
		} else {
			nd.Assert(cnt <= 1, "H05a.scheduled-twice")
		}
	}
	// transactions left open are gone
	_, open := u.txStore.Get(verifT1)
	nd.Assert(!open, "H05a.open-tx-gone")

	// "whatever other database instances the same process has opened before or MEANWHILE":
	// optionally another database (its own records, any sequence numbers) is loaded now
	if nd.Choice("other-db-loaded-meanwhile", 2) == 1 {
		orepo := &verifRepo{}
		oseq := sequence.Seq(nd.U64("other-db-seq"))
		nd.Assume(nd.And(oseq > 0, oseq < 1<<62))
		if nd.Choice("other-db-empty", 2) == 0 {
			orepo.all = append(orepo.all, model.File{Key: "x", TxId: model.MainTxId, ContentId: "other", Seq: oseq})
		}
		_, oerr := New(orepo).Load(ctx)
		nd.Assert(oerr == nil, "H05a.other-load-ok")
		nd.Reach("H05a.other-db")
	}
	// the first acknowledged write after the reopen supersedes every persisted version
	wk := verifKeys[nd.Choice("write-key", 2)]
	err = u.Store(ctx, model.File{Key: wk, TxId: model.MainTxId, ContentId: "new"})
	nd.Assert(err == nil, "H05a.store-ok")
	nd.Assert(len(repo.sets) == 1, "H05a.store-recorded")
	if len(repo.sets) != 1 {
		return
	}
	newSeq := repo.sets[0].Seq
	for i := range recs {
		if recs[i].main {
			nd.Assert(newSeq > recs[i].f.Seq, "H05a.new-write-newer-than-persisted")
		}
	}
	got, gerr := u.Get(ctx, model.MainTxId, wk, flt)
	nd.Assert(nd.And(gerr == nil, got.ContentId == "new"), "H05a.new-write-visible-now")

	// ... and after the next reopen (fresh core, counter again anywhere)
	repo2 := &verifRepo{}
	for i := range recs {
		scheduled := false
		for _, d := range del {
			if d.ContentId == recs[i].f.ContentId {
				scheduled = true
			}
		}
		// the cleaner may or may not have removed the scheduled records before the process ended
		if scheduled && nd.Choice("cleaned", 2) == 1 {
			continue
		}
		repo2.all = append(repo2.all, recs[i].f)
	}
	repo2.all = append(repo2.all, repo.sets[0])
	u2 := New(repo2)
	c2 := nd.U64("process-counter-2")
	nd.Assume(c2 < 1<<62)
	sequence.VerifSetCounter(c2)
	_, err = u2.Load(ctx)
	nd.Assert(err == nil, "H05a.reload-ok")
	got, gerr = u2.Get(ctx, model.MainTxId, wk, flt)
	nd.Assert(nd.And(gerr == nil, got.ContentId == "new"), "H05a.new-write-wins-after-reopen")
	nd.Reach("H05a.end")
}

// VerifRaceSelfTest2: monitor self-test on the registry (omap under its RWMutex): no report expected
// for Store/Delete/Load from two threads (Oldest is the one that iterates without the lock).
func VerifRaceSelfTest2() {
	nd.SetPreemptionBound(2)
	reg := txrepo.New()
	ctx := context.Background()
	go func() {
		_ = reg.Store(ctx, model.Transaction{Id: verifT2, Seq: 2})
		_, _ = reg.Delete(ctx, verifT2)
	}()
	_ = reg.Store(ctx, model.Transaction{Id: verifT1, Seq: 1})
	_, _ = reg.Get(ctx, verifT1)
	_, _ = reg.Delete(ctx, verifT1)
	nd.JoinAll()
}

// ---------- C14: every version handed to DeleteFilesAsync reaches the physical deletion, once ----------

type verifQueueSender struct{ q []wpool.Event }

func (s *verifQueueSender) Send(ctx context.Context, event wpool.Event) { s.q = append(s.q, event) }

// VerifH14c: batches around the cleaner's chunk size (1000): all queued events are run after
// DeleteFilesAsync has returned (as the worker pool does); every content id must be asked for
// deletion exactly once.
func VerifH14c() {
	sizes := []int{0, 1, 999, 1000, 1001, 2000, 2001}
	n := sizes[nd.Choice("batch", len(sizes))]
	nd.Bound("H14c.max_batch", 2001)
	env := &verifCleanEnv{}
	snd := &verifQueueSender{}
	cl := cleaner.New(nil, verifNoContent{}, env, env, verifNoDir{}, verifNoFile{}, snd, txrepo.New())
	files := make([]model.File, n)
	for i := range files {
		files[i] = model.File{Key: "k", TxId: verifT1, ContentId: fmt.Sprintf("content-%04d", i), Seq: sequence.Seq(i + 1)}
	}
	ctx := context.Background()
	cl.DeleteFilesAsync(ctx, files)
	want := (n + 999) / 1000
	nd.Assert(len(snd.q) == want, "H14c.one-event-per-chunk")
	for _, e := range snd.q {
		nd.Assert(e.Fn(ctx) == nil, "H14c.event-ok")
	}
	nd.Assert(len(env.asked) == n, "H14c.every-file-deleted-once-count")
	if len(env.asked) == n {
		seen := make(map[string]int, n)
		for _, id := range env.asked {
			seen[id]++
		}
		okAll := true
		for i := range files {
			if seen[files[i].ContentId] != 1 {
				okAll = false
			}
		}
		nd.Assert(okAll, "H14c.every-file-deleted-exactly-once")
	}
	nd.Reach("H14c.end")
}

// VerifH13c: a write whose metadata record cannot be stored (core.Store with a failing storage
// write), as an inductive step from an arbitrary invariant state: the call fails, nothing changes
// for any reader, and the invariant - including "the pools hold nothing that is still in use" -
// holds afterwards, so that the transaction stores handed to later transactions are their own.
// Then the writer's transaction ends and the two other actors write: still independent.
func VerifH13c() {
	s := verifBuildState(3)
	t := nd.Choice("writer", 3)
	if t != 0 && !s.begun[t] {
		nd.Assume(false)
	}
	k := verifKeys[nd.Choice("key", 2)]
	s.jump()
	s.repo.failSet = true
	err := s.u.Store(s.ctx, model.File{Key: k, TxId: verifTxIds[t], ContentId: "failed-write"})
	s.repo.failSet = false
	nd.Assert(err != nil, "H13c.failure-reported")
	s.checkInv("H13c.inv")
	s.checkReads("H13c.post")
	if t != 0 {
		// the writer's transaction ends; what it leaves in the pools is handed out again
		var rest []verifVer
		for _, v := range s.vs {
			if v.owner != t {
				rest = append(rest, v)
			}
		}
		_ = s.u.DeleteTx(s.ctx, verifTxIds[t])
		s.vs = rest
		s.begun[t] = false
		s.checkInv("H13c.ended.inv")
		o := 3 - t // the other transaction
		if !s.begun[o] {
			s.beginTx(o)
		}
		s.store(o, "a")
		s.store(0, "b")
		s.checkInv("H13c.later.inv")
		s.checkReads("H13c.later")
	}
	nd.Reach("H13c.end")
}

// VerifH03d: a large commit. A transaction that wrote N distinct keys (N just above the round
// numbers batch sizes tend to have: 1001, 1025) commits: all N version records are written by ONE
// storage transaction (the all-or-nothing unit of a crash), each once, as main records with fresh
// consecutive sequence numbers.
func VerifH03d() {
	s := verifNewState()
	N := []int{1001, 1025}[nd.Choice("keys", 2)]
	nd.Bound("H03d.keys", N)
	// a concrete process counter: the sequence arithmetic is the subject of H03a, here it is size
	sequence.VerifSetCounter(7)
	s.begin[1] = sequence.Next()
	s.begun[1] = true
	digits := "0123456789"
	for i := 0; i < N; i++ {
		key := "k" + string([]byte{digits[i/1000%10], digits[i/100%10], digits[i/10%10], digits[i%10]})
		err := s.u.Store(s.ctx, model.File{Key: key, TxId: verifTxIds[1], ContentId: key})
		nd.Assert(err == nil, "H03d.store")
	}
	setsBefore, txBefore := len(s.repo.sets), s.repo.txCount
	maxPre := sequence.Seq(sequence.VerifCounter())
	b := s.begin[1]
	del, err := s.u.UpdateTx(s.ctx, verifTxIds[1], model.MainTxId, model.FileFilter{BeforeSeq: &b})
	nd.Assert(err == nil, "H03d.commit-ok")
	nd.Assert(len(del) == 0, "H03d.nothing-superseded")
	nd.Assert(s.repo.txCount == txBefore+1, "H03d.one-storage-transaction")
	nd.Assert(len(s.repo.sets) == setsBefore+N, "H03d.one-record-per-key")
	if len(s.repo.sets) == setsBefore+N {
		for _, rec := range s.repo.sets[setsBefore:] {
			nd.Assert(nd.And(rec.TxId == model.MainTxId, rec.ContentId == rec.Key, rec.Seq > maxPre), "H03d.record")
		}
	}
	nd.Reach("H03d.end")
}

// VerifH02e: two concurrent writers. From an arbitrary invariant state two goroutines call
// core.Store at the same time (the same or different actors and keys); whatever the interleaving
// (up to one preemption, the new goroutine may run first), afterwards every version list - the
// actors' and the all-store's - is in strictly increasing sequence order with its search mirror
// in step: the order the lookups of C02/C18 rely on.
func VerifH02e() {
	s := verifBuildState(2)
	o1, o2 := nd.Choice("writer1", 3), nd.Choice("writer2", 3)
	if nd.Choice("a-transaction-has-ended-before", 2) == 1 {
		// transaction 1 wrote and was rolled back: its store is in the pool; then transactions 1
		// (begun again) and 2 make their FIRST writes at the same time, both acquiring from the pool
		if !s.begun[1] {
			s.beginTx(1)
		}
		s.store(1, "a")
		var rest []verifVer
		for _, v := range s.vs {
			if v.owner != 1 {
				rest = append(rest, v)
			}
		}
		_ = s.u.DeleteTx(s.ctx, verifTxIds[1])
		s.vs = rest
		for _, v := range s.vs {
			if v.owner == 2 {
				nd.Assume(false) // transaction 2 must not have written yet
			}
		}
		s.beginTx(1)
		if !s.begun[2] {
			s.beginTx(2)
		}
		o1, o2 = 1, 2
		nd.Reach("H02e.pool-not-empty")
	}
	if (o1 != 0 && !s.begun[o1]) || (o2 != 0 && !s.begun[o2]) {
		nd.Assume(false)
	}
	if o1 != 0 && o1 == o2 {
		nd.Assume(false) // a transaction is used by one goroutine at a time
	}
	k1, k2 := verifKeys[nd.Choice("key1", 2)], verifKeys[nd.Choice("key2", 2)]
	var e1, e2 error
	nd.SpawnRunsFirst(true)
	nd.SetPreemptionBound(1)
	go func() { e2 = s.u.Store(s.ctx, model.File{Key: k2, TxId: verifTxIds[o2], ContentId: "w2"}) }()
	e1 = s.u.Store(s.ctx, model.File{Key: k1, TxId: verifTxIds[o1], ContentId: "w1"})
	nd.JoinAll()
	nd.SetPreemptionBound(0)
	nd.SpawnRunsFirst(false)
	nd.Assert(e1 == nil && e2 == nil, "H02e.store-ok")
	check := func(tx *mcore.Transaction, id string) {
		for _, k := range verifKeys {
			got, shape := mcore.VerifDump(tx, k)
			nd.Assert(shape, id+".list-shape-or-mirror")
			for i := 1; i < len(got); i++ {
				nd.Assert(got[i-1].Seq < got[i].Seq, id+".sequence-order")
			}
		}
	}
	for t := 0; t < 3; t++ {
		if tx, ok := s.u.txStore.Get(verifTxIds[t]); ok {
			check(tx, "H02e.list")
		}
	}
	check(&s.u.allStore, "H02e.all-store")
	// every registered transaction has a store of its own, and the pools are sound
	var live []*mcore.Transaction
	for t := 0; t < 3; t++ {
		if tx, ok := s.u.txStore.Get(verifTxIds[t]); ok {
			for _, o := range live {
				nd.Assert(o != tx, "H02e.two-transactions-share-one-store")
			}
			live = append(live, tx)
		}
	}
	nd.Assert(mcore.VerifPoolSound(s.u.txPool, live), "H02e.pool-holds-a-live-transaction-store")
	nd.Reach("H02e.end")
}
