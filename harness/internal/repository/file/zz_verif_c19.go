//go:build verif

package file

import (
	"context"
	"errors"

	"github.com/google/uuid"

	"github.com/glebziz/fs_db/internal/db/badger"
	"github.com/glebziz/fs_db/internal/model"
	"github.com/glebziz/fs_db/internal/model/sequence"
	"github.com/glebziz/fs_db/internal/model/transactor"
	nd "github.com/glebziz/fs_db/internal/verifnd"
)

// C19 harnesses. The golden layout is stated here independently of conversion.go:
//   bytes 0..7   sequence number, little endian
//   bytes 8..23  transaction id (the 16 raw bytes of the UUID)
//   bytes 24..39 content id
//   bytes 40..   raw key

func verifKeyMax() int {
	if nd.Tier() == 1 {
		return 24
	}
	return 8
}

// verifHex is the textual digit of a nibble, written arithmetically (no table).
func verifHex(n byte) byte {
	return n + 48 + byte(nd.IteU64(n > 9, 39, 0))
}

// verifCanonical asserts that s is the canonical text form of the 16 raw bytes.
func verifCanonical(s string, raw []byte, id string) {
	nd.Assert(len(s) == 36, id+".len")
	if len(s) != 36 {
		return
	}
	pos := 0
	for i := 0; i < 16; i++ {
		if i == 4 || i == 6 || i == 8 || i == 10 {
			nd.Assert(s[pos] == '-', id+".dash")
			pos++
		}
		nd.Assert(nd.And(s[pos] == verifHex(raw[i]>>4), s[pos+1] == verifHex(raw[i]&15)), id+".digits")
		pos += 2
	}
}

func verifSymUUID(name string) uuid.UUID {
	var u uuid.UUID
	for i := range u {
		u[i] = nd.U8(name)
	}
	return u
}

// VerifH19a: byte-exact layout and round trip for every seq, every pair of ids, every key <= bound.
func VerifH19a() {
	L := nd.Choice("keylen", verifKeyMax()+1)
	nd.Bound("H19.max_key_length", verifKeyMax())
	seq := nd.U64("seq")
	tx, cid := verifSymUUID("tx"), verifSymUUID("cid")
	key := nd.SymString("key", L)
	f := model.File{Key: key, TxId: tx.String(), ContentId: cid.String(), Seq: sequence.Seq(seq)}
	verifCanonical(f.TxId, tx[:], "H19a.uuid-text")
	data := make([]byte, fileLen(f))
	err := marshalFile(f, data)
	nd.Assert(err == nil, "H19a.marshal-ok")
	nd.Assert(len(data) == 40+L, "H19a.length")
	if err != nil || len(data) != 40+L {
		return
	}
	for i := 0; i < 8; i++ {
		nd.Assert(data[i] == byte(seq>>(8*uint(i))), "H19a.seq-little-endian")
	}
	for i := 0; i < 16; i++ {
		nd.Assert(data[8+i] == tx[i], "H19a.txid-at-8")
		nd.Assert(data[24+i] == cid[i], "H19a.contentid-at-24")
	}
	for i := 0; i < L; i++ {
		nd.Assert(data[40+i] == key[i], "H19a.key-at-40")
	}
	var g model.File
	err = unmarshalFile(data, &g)
	nd.Assert(err == nil, "H19a.unmarshal-ok")
	nd.Assert(g.Seq == f.Seq, "H19a.roundtrip-seq")
	nd.Assert(nd.EqStr(g.TxId, f.TxId), "H19a.roundtrip-txid")
	nd.Assert(nd.EqStr(g.ContentId, f.ContentId), "H19a.roundtrip-contentid")
	nd.Assert(nd.EqStr(g.Key, f.Key), "H19a.roundtrip-key")
	nd.Reach("H19a.end")
}

// VerifH19c: decoding arbitrary bytes never panics, rejects anything shorter than the header,
// and decodes the golden fields otherwise.
func VerifH19c() {
	n := nd.Choice("len", 40+verifKeyMax()+1)
	data := nd.Bytes("data", n)
	var g model.File
	err := unmarshalFile(data, &g)
	if n < 40 {
		nd.Assert(errors.Is(err, model.ErrInvalidFileFormat), "H19c.short-rejected")
		nd.Assert(nd.And(g.Seq == 0, g.Key == "", g.TxId == "", g.ContentId == ""), "H19c.short-untouched")
		nd.Reach("H19c.short")
		return
	}
	nd.Assert(err == nil, "H19c.long-accepted")
	for i := 0; i < 8; i++ {
		nd.Assert(byte(uint64(g.Seq)>>(8*uint(i))) == data[i], "H19c.seq")
	}
	verifCanonical(g.TxId, data[8:24], "H19c.txid")
	verifCanonical(g.ContentId, data[24:40], "H19c.contentid")
	nd.Assert(len(g.Key) == n-40, "H19c.keylen")
	if len(g.Key) == n-40 {
		for i := 0; i < n-40; i++ {
			nd.Assert(g.Key[i] == data[40+i], "H19c.key")
		}
	}
	nd.Assert(unmarshalFile(data, nil) != nil, "H19c.nil-target")
	nd.Reach("H19c.long")
}

// VerifH19e: wrong buffer length and non-UUID ids are rejected and nothing is written.
func VerifH19e() {
	L := nd.Choice("keylen", 4)
	key := nd.SymString("key", L)
	good := "00112233-4455-6677-8899-aabbccddeeff"
	bl := nd.Choice("buflen", 40+L+3)
	data := nd.Bytes("buf", bl)
	orig := append([]byte{}, data...)
	f := model.File{Key: key, TxId: good, ContentId: good, Seq: 7}
	switch nd.Choice("defect", 4) {
	case 0: // only the length may be wrong
	case 1:
		f.TxId = "not-a-uuid"
	case 2:
		f.ContentId = "00112233-4455-6677-8899-aabbccddeefg"
	case 3:
		f.TxId = ""
	}
	err := marshalFile(f, data)
	bad := bl != 40+L || f.TxId != good || f.ContentId != good
	if bad {
		nd.Assert(errors.Is(err, model.ErrInvalidFileFormat), "H19e.rejected")
		nd.Assert(nd.EqBytes(data, orig), "H19e.nothing-written")
		nd.Reach("H19e.rejected")
	} else {
		nd.Assert(err == nil, "H19e.accepted")
		nd.Reach("H19e.accepted")
	}
}

// ---- recording key-value provider (interface level) ----

type verifKV struct {
	keys [][]byte
	vals [][]byte
}

func (k *verifKV) Set(key []byte, val []byte) error {
	for i := range k.keys {
		if string(k.keys[i]) == string(key) {
			k.vals[i] = append([]byte{}, val...)
			return nil
		}
	}
	k.keys = append(k.keys, append([]byte{}, key...))
	k.vals = append(k.vals, append([]byte{}, val...))
	return nil
}
func (k *verifKV) GetAll(prefix []byte) ([]badger.Item, error) {
	var out []badger.Item
	for i := range k.keys {
		if len(k.keys[i]) >= len(prefix) && string(k.keys[i][:len(prefix)]) == string(prefix) {
			out = append(out, badger.Item{Key: k.keys[i], Value: k.vals[i]})
		}
	}
	return out, nil
}
func (k *verifKV) Get(key []byte) ([]byte, error) { return nil, errors.New("unused") }
func (k *verifKV) Delete(key []byte) error        { return nil }
func (k *verifKV) DB(ctx context.Context) badger.QueryManager {
	return k
}
func (k *verifKV) RunTransaction(ctx context.Context, fn transactor.TransactionFn) error {
	return fn(ctx)
}

// golden vectors: records exactly as the pinned release writes them (checked once natively
// against the real code, see DESIGN.md) and what they must keep decoding to.
var verifGolden = []struct {
	hex  string
	want model.File
}{
	{"0807060504030201" + "00000000000000000000000000000000" + "00112233445566778899aabbccddeeff" + "612f62",
		model.File{Key: "a/b", TxId: model.MainTxId, ContentId: "00112233-4455-6677-8899-aabbccddeeff", Seq: 0x0102030405060708}},
	{"ffffffffffffffff" + "6ba7b8109dad11d180b400c04fd430c8" + "6ba7b8119dad11d180b400c04fd430c8" + "",
		model.File{Key: "", TxId: "6ba7b810-9dad-11d1-80b4-00c04fd430c8", ContentId: "6ba7b811-9dad-11d1-80b4-00c04fd430c8", Seq: 0xffffffffffffffff}},
	{"0100000000000000" + "00000000000000000000000000000000" + "ffffffffffffffffffffffffffffffff" + "d184d0b0d0b9d0bb00ff",
		model.File{Key: "файл\x00\xff", TxId: model.MainTxId, ContentId: "ffffffff-ffff-ffff-ffff-ffffffffffff", Seq: 1}},
}

func verifUnhex(s string) []byte {
	out := make([]byte, len(s)/2)
	for i := range out {
		out[i] = verifNib(s[2*i])<<4 | verifNib(s[2*i+1])
	}
	return out
}

func verifNib(c byte) byte {
	if c >= 'a' {
		return c - 'a' + 10
	}
	return c - '0'
}

// VerifH19d: through the repository (key "file/<content id>", golden value) and the fixed vectors.
func VerifH19d() {
	kv := &verifKV{}
	r := New(kv)
	ctx := context.Background()
	L := nd.Choice("keylen", 3)
	seq := nd.U64("seq")
	cid := verifSymUUID("cid")
	key := nd.SymString("key", L)
	f := model.File{Key: key, TxId: model.MainTxId, ContentId: cid.String(), Seq: sequence.Seq(seq)}
	err := r.Set(ctx, f)
	nd.Assert(err == nil, "H19d.set-ok")
	nd.Assert(len(kv.keys) == 1, "H19d.one-record")
	if err != nil || len(kv.keys) != 1 {
		return
	}
	nd.Assert(nd.EqStr(string(kv.keys[0]), "file/"+f.ContentId), "H19d.record-key")
	v := kv.vals[0]
	nd.Assert(len(v) == 40+L, "H19d.value-length")
	if len(v) == 40+L {
		for i := 0; i < 8; i++ {
			nd.Assert(v[i] == byte(seq>>(8*uint(i))), "H19d.value-seq")
		}
		for i := 0; i < 16; i++ {
			nd.Assert(v[8+i] == 0, "H19d.value-main-tx")
			nd.Assert(v[24+i] == cid[i], "H19d.value-contentid")
		}
	}
	// golden vectors written by the pinned release are added next to it and read back
	for i, gv := range verifGolden {
		kv.keys = append(kv.keys, []byte("file/"+gv.want.ContentId))
		kv.vals = append(kv.vals, verifUnhex(gv.hex))
		_ = i
	}
	kv.keys = append(kv.keys, []byte("fileContent/zzz"))
	kv.vals = append(kv.vals, []byte("not a version record"))
	all, err := r.GetAll(ctx)
	nd.Assert(err == nil, "H19d.getall-ok")
	nd.Assert(len(all) == 1+len(verifGolden), "H19d.getall-count")
	if err != nil || len(all) != 1+len(verifGolden) {
		return
	}
	nd.Assert(nd.And(all[0].Seq == f.Seq, nd.EqStr(all[0].ContentId, f.ContentId), nd.EqStr(all[0].Key, f.Key), all[0].TxId == model.MainTxId), "H19d.getall-own")
	for i, gv := range verifGolden {
		g := all[1+i]
		nd.Assert(nd.And(g.Seq == gv.want.Seq, g.TxId == gv.want.TxId, g.ContentId == gv.want.ContentId, g.Key == gv.want.Key), "H19d.golden-decodes")
		// and the current encoder still produces the golden bytes
		buf := make([]byte, fileLen(gv.want))
		nd.Assert(marshalFile(gv.want, buf) == nil, "H19d.golden-encodes-ok")
		nd.Assert(nd.EqBytes(buf, verifUnhex(gv.hex)), "H19d.golden-encodes")
	}
	nd.Reach("H19d.end")
}

// VerifH19f: several records written inside ONE storage transaction, through the real Badger
// manager on the library model (which, like the library, keeps a reference to the value slice of
// Txn.Set until the transaction commits): every record decodes to exactly what was encoded.
func VerifH19f() {
	mgr, err := badger.New(nd.ScratchDir())
	nd.Assert(err == nil, "H19f.open")
	if err != nil {
		return
	}
	r := New(mgr)
	ctx := context.Background()
	n := 2 + nd.Choice("records", 2)
	cids := []string{"00112233-4455-6677-8899-aabbccddeef0", "00112233-4455-6677-8899-aabbccddeef1", "00112233-4455-6677-8899-aabbccddeef2"}
	var fs []model.File
	for i := 0; i < n; i++ {
		fs = append(fs, model.File{Key: nd.SymString("key", nd.Choice("keylen", 3)), TxId: model.MainTxId, ContentId: cids[i], Seq: sequence.Seq(nd.U64("seq"))})
	}
	// history of the store before: the first record was written earlier by its transaction (the
	// commit below re-writes it under the same key, as core.UpdateTx does), and another record was
	// written and deleted again (the library keeps superseded versions and tombstones around)
	if nd.Choice("earlier-versions", 2) == 1 {
		pre := fs[0]
		pre.TxId = "6ba7b810-9dad-11d1-80b4-00c04fd430c8"
		pre.Seq = 1
		nd.Assert(r.Set(ctx, pre) == nil, "H19f.earlier-write")
		gone := model.File{Key: "gone", TxId: model.MainTxId, ContentId: "00112233-4455-6677-8899-aabbccddeeff", Seq: 2}
		nd.Assert(r.Set(ctx, gone) == nil, "H19f.earlier-write")
		nd.Assert(r.Delete(ctx, gone) == nil, "H19f.earlier-delete")
		nd.Reach("H19f.with-history")
	}
	err = r.RunTransaction(ctx, func(ctx context.Context) error {
		for _, f := range fs {
			if err := r.Set(ctx, f); err != nil {
				return err
			}
		}
		return nil
	})
	nd.Assert(err == nil, "H19f.transaction-ok")
	all, err := r.GetAll(ctx)
	nd.Assert(err == nil && len(all) == n, "H19f.getall-count")
	if err != nil || len(all) != n {
		return
	}
	// GetAll returns the records in key order = content id order
	for i := range fs {
		nd.Assert(nd.And(all[i].Seq == fs[i].Seq, all[i].ContentId == fs[i].ContentId, nd.EqStr(all[i].Key, fs[i].Key), all[i].TxId == model.MainTxId), "H19f.records-of-one-transaction-round-trip")
	}
	nd.Reach("H19f.end")
}

// VerifH19g: many records. N version records (N just above the round numbers page sizes tend to
// have: 1025, 2049) are written through the real repository and manager and read back with GetAll:
// every one of them comes back, once, decoded to what was encoded.
func VerifH19g() {
	mgr, err := badger.New(nd.ScratchDir())
	nd.Assert(err == nil, "H19g.open")
	if err != nil {
		return
	}
	r := New(mgr)
	ctx := context.Background()
	N := []int{1025, 2049}[nd.Choice("records", 2)]
	nd.Bound("H19g.records", N)
	hex := "0123456789abcdef"
	cid := func(i int) string {
		return "00112233-4455-6677-8899-aabbccdd" + string([]byte{hex[i>>12&15], hex[i>>8&15], hex[i>>4&15], hex[i&15]})
	}
	for i := 0; i < N; i++ {
		f := model.File{Key: cid(i)[32:], TxId: model.MainTxId, ContentId: cid(i), Seq: sequence.Seq(uint64(i + 1))}
		nd.Assert(r.Set(ctx, f) == nil, "H19g.set")
	}
	all, err := r.GetAll(ctx)
	nd.Assert(err == nil, "H19g.getall-ok")
	nd.Assert(len(all) == N, "H19g.every-record-comes-back")
	if err != nil || len(all) != N {
		return
	}
	for i := range all { // key order = content id order = i
		nd.Assert(all[i].ContentId == cid(i) && all[i].Seq == sequence.Seq(uint64(i+1)) && all[i].Key == cid(i)[32:], "H19g.record")
	}
	nd.Reach("H19g.end")
}

// VerifH19h: two goroutines write records of two different transactions at the same time
// (through the real manager): every record decodes to what its writer encoded - in particular
// to its writer's transaction id.
func VerifH19h() {
	mgr, err := badger.New(nd.ScratchDir())
	nd.Assert(err == nil, "H19h.open")
	if err != nil {
		return
	}
	r := New(mgr)
	ctx := context.Background()
	txA, txB := "6ba7b810-9dad-11d1-80b4-00c04fd430c8", model.MainTxId
	mk := func(cid, tx string, seq uint64) model.File {
		return model.File{Key: "k", TxId: tx, ContentId: cid, Seq: sequence.Seq(seq)}
	}
	// an earlier write of A's transaction (whatever a codec may remember, it remembers A's)
	nd.Assert(r.Set(ctx, mk("00112233-4455-6677-8899-aabbccddee00", txA, 1)) == nil, "H19h.first")
	fa, fb := mk("00112233-4455-6677-8899-aabbccddee01", txA, 2), mk("00112233-4455-6677-8899-aabbccddee02", txB, 3)
	var ea, eb error
	nd.SpawnRunsFirst(true)
	nd.SetPreemptionBound(1 + nd.Tier())
	go func() { eb = r.Set(ctx, fb) }()
	ea = r.Set(ctx, fa)
	nd.JoinAll()
	nd.SetPreemptionBound(0)
	nd.Assert(ea == nil && eb == nil, "H19h.set-ok")
	all, err := r.GetAll(ctx)
	nd.Assert(err == nil && len(all) == 3, "H19h.getall")
	if err != nil || len(all) != 3 {
		return
	}
	nd.Assert(all[1].TxId == txA && all[1].Seq == 2, "H19h.record-decodes-to-its-writers-transaction")
	nd.Assert(all[2].TxId == txB && all[2].Seq == 3, "H19h.record-decodes-to-its-writers-transaction")
	nd.Reach("H19h.end")
}
