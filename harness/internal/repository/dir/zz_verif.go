//go:build verif

package dir

import (
	"sort"

	"github.com/glebziz/fs_db/internal/model"
)

// VerifActive returns the active directories (sorted by path) and the per-root counters of the
// repository (overlay only).
func (r *Repo) VerifActive() ([]model.Dir, map[string]uint64) {
	var paths []string
	for p := range r.dirs {
		paths = append(paths, p)
	}
	sort.Strings(paths)
	out := make([]model.Dir, 0, len(paths))
	for _, p := range paths {
		out = append(out, r.dirs[p])
	}
	counts := map[string]uint64{}
	for _, root := range r.roots {
		counts[root] = r.counts[root]
	}
	return out, counts
}
