// Package verifenv holds the environment models the gosym engine substitutes for the operating
// system, the Badger library, gopsutil, the YAML decoder and (in sequential harnesses) the worker
// pool. They are ordinary Go, interpreted by the engine like the code under test; the engine
// redirects the library entry points to the functions here (engine/intrinsics.go, redirects).
// Contract of each model: DESIGN.md section 3.
package verifenv

import (
	"io"
	"io/fs"
	"os"
	"path"
	"sort"
	"syscall"
	"time"

	nd "github.com/glebziz/fs_db/internal/verifnd"
)

type fnode struct {
	data  []byte
	isDir bool
}

type handle struct {
	p      string
	n      *fnode
	pos    int
	closed bool
	// access mode of the descriptor: a read on a write-only (a write on a read-only) descriptor
	// fails with EBADF; appnd: O_APPEND, every write goes to the end
	noRead, noWrite, appnd bool
	// dirPos: how many entries of a directory the batched readers (Readdirnames, ReadDir, Readdir
	// with n > 0) have handed out so far; symbolic when the directory holds symbolic extra entries
	dirPos uint64
}

// FSState is the file-system model: a flat table of cleaned paths.
type FSState struct {
	nodes   map[string]*fnode
	names   []string // every existing path, creation order
	handles map[*os.File]*handle

	// OnWrite, if set, decides how many of the n bytes of a Write to path are accepted and with
	// which error (fault injection: partial writes, no-space).
	OnWrite func(p string, n int) (int, error)
	// OnRead, if set, may fail a Read of path at file offset pos (fault injection: media error).
	OnRead func(p string, pos int) error
	// OnCreate, if set, may fail file creation.
	OnCreate func(p string) error
	// Creates / Removes record every created and removed regular file (for C14/C17 oracles).
	Creates []string
	Removes []string
	// MkdirFail makes MkdirAll fail for this path (unused unless set)
	Writes int
}

var FS = NewFS()

// TornWrites: file writes become durable in two halves (crash harnesses).
var TornWrites bool

func NewFS() *FSState {
	return &FSState{nodes: map[string]*fnode{}, handles: map[*os.File]*handle{}}
}

func pathErr(op, p string, e syscall.Errno) error {
	return &fs.PathError{Op: op, Path: p, Err: e}
}

func (s *FSState) lookup(p string) *fnode {
	p = path.Clean(p)
	if p == "." || p == "/" {
		return &fnode{isDir: true}
	}
	return s.nodes[p]
}

func (s *FSState) add(p string, n *fnode) {
	s.nodes[p] = n
	s.names = append(s.names, p)
}

func (s *FSState) del(p string) {
	delete(s.nodes, p)
	for i, x := range s.names {
		if x == p {
			s.names = append(s.names[:i:i], s.names[i+1:]...)
			return
		}
	}
}

// Exists, IsDir, Content, Files, Children: observation helpers for harness oracles.
func (s *FSState) Exists(p string) bool { return s.lookup(p) != nil }
func (s *FSState) IsDir(p string) bool {
	n := s.lookup(p)
	return n != nil && n.isDir
}
func (s *FSState) Content(p string) ([]byte, bool) {
	n := s.lookup(p)
	if n == nil || n.isDir {
		return nil, false
	}
	return n.data, true
}

// Files lists every regular file under root (recursively), sorted.
func (s *FSState) Files(root string) []string {
	root = path.Clean(root)
	var out []string
	for _, p := range s.names {
		n := s.nodes[p]
		if n == nil || n.isDir {
			continue
		}
		if len(p) > len(root)+1 && p[:len(root)] == root && p[len(root)] == '/' {
			out = append(out, p)
		}
	}
	sort.Strings(out)
	return out
}

// Children lists the names directly inside dir, sorted.
func (s *FSState) Children(dir string) []string {
	dir = path.Clean(dir)
	var out []string
	for _, p := range s.names {
		if path.Dir(p) == dir && p != dir {
			out = append(out, path.Base(p))
		}
	}
	sort.Strings(out)
	return out
}

// PutFile / PutDir let a harness build an arbitrary durable pre-state directly.
func (s *FSState) PutDir(p string) {
	p = path.Clean(p)
	if p == "." || p == "/" || s.nodes[p] != nil {
		return
	}
	s.PutDir(path.Dir(p))
	s.add(p, &fnode{isDir: true})
}
func (s *FSState) PutFile(p string, data []byte) {
	p = path.Clean(p)
	s.PutDir(path.Dir(p))
	if n := s.nodes[p]; n != nil {
		n.data = data
		return
	}
	s.add(p, &fnode{data: data})
}

// ---------- redirected library entry points ----------

func OsMkdirAll(p string, perm os.FileMode) error {
	p = path.Clean(p)
	if n := FS.lookup(p); n != nil {
		if n.isDir {
			return nil
		}
		return pathErr("mkdir", p, syscall.ENOTDIR)
	}
	nd.Mutation("fs.mkdir " + p)
	FS.PutDir(p)
	return nil
}

func OsCreate(name string) (*os.File, error) {
	return OsOpenFile(name, os.O_RDWR|os.O_CREATE|os.O_TRUNC, 0o666)
}

func OsOpen(name string) (*os.File, error) { return OsOpenFile(name, os.O_RDONLY, 0) }

// OsOpenFile: open(2) on the model: access mode, O_CREATE, O_EXCL, O_TRUNC, O_APPEND.
func OsOpenFile(name string, flag int, perm os.FileMode) (*os.File, error) {
	p := path.Clean(name)
	acc := flag & (os.O_RDONLY | os.O_WRONLY | os.O_RDWR)
	h := &handle{p: p, noRead: acc == os.O_WRONLY, noWrite: acc == os.O_RDONLY, appnd: flag&os.O_APPEND != 0}
	if flag&os.O_CREATE == 0 {
		nd.Yield()
		n := FS.lookup(p)
		if n == nil {
			return nil, pathErr("open", name, syscall.ENOENT)
		}
		if n.isDir && !h.noWrite {
			return nil, pathErr("open", name, syscall.EISDIR)
		}
		if flag&os.O_TRUNC != 0 && !n.isDir && !h.noWrite {
			nd.Mutation("fs.truncate " + p)
			n.data = nil
		}
		h.n = n
		f := new(os.File)
		FS.handles[f] = h
		return f, nil
	}
	if FS.OnCreate != nil {
		if err := FS.OnCreate(p); err != nil {
			return nil, err
		}
	}
	parent := FS.lookup(path.Dir(p))
	if parent == nil {
		return nil, pathErr("open", name, syscall.ENOENT)
	}
	if !parent.isDir {
		return nil, pathErr("open", name, syscall.ENOTDIR)
	}
	nd.Mutation("fs.create " + p)
	n := FS.nodes[p]
	if n != nil {
		if n.isDir {
			return nil, pathErr("open", name, syscall.EISDIR)
		}
		if flag&os.O_EXCL != 0 {
			return nil, pathErr("open", name, syscall.EEXIST)
		}
		if flag&os.O_TRUNC != 0 {
			n.data = nil
		}
	} else {
		n = &fnode{}
		FS.add(p, n)
	}
	FS.Creates = append(FS.Creates, p)
	h.n = n
	f := new(os.File)
	FS.handles[f] = h
	return f, nil
}

func OsRemove(name string) error {
	p := path.Clean(name)
	n := FS.nodes[p]
	if n == nil {
		nd.Yield()
		return pathErr("remove", name, syscall.ENOENT)
	}
	if n.isDir && len(FS.Children(p)) > 0 {
		return pathErr("remove", name, syscall.ENOTEMPTY)
	}
	nd.Mutation("fs.remove " + p)
	FS.del(p)
	if !n.isDir {
		FS.Removes = append(FS.Removes, p)
	}
	return nil
}

type dirEnt struct {
	name string
	dir  bool
}

func (d dirEnt) Name() string { return d.name }
func (d dirEnt) IsDir() bool  { return d.dir }
func (d dirEnt) Type() fs.FileMode {
	if d.dir {
		return fs.ModeDir
	}
	return 0
}
func (d dirEnt) Info() (fs.FileInfo, error) { return nil, syscall.ENOSYS }

// ExtraEntries, if set, adds a symbolic number of further (inaccessible) entries to what ReadDir
// reports for a directory: "the directory already holds b more files" (C17).
var ExtraEntries func(dir string) uint64

func OsReadDir(name string) ([]os.DirEntry, error) {
	p := path.Clean(name)
	nd.Yield()
	n := FS.lookup(p)
	if n == nil {
		return nil, pathErr("open", name, syscall.ENOENT)
	}
	if !n.isDir {
		return nil, pathErr("readdirent", name, syscall.ENOTDIR)
	}
	kids := FS.Children(p)
	out := make([]os.DirEntry, 0, len(kids))
	for _, k := range kids {
		c := FS.nodes[path.Join(p, k)]
		out = append(out, dirEnt{name: k, dir: c != nil && c.isDir})
	}
	if ExtraEntries != nil {
		return nd.SymLen(out, uint64(len(out))+ExtraEntries(p)), nil
	}
	return out, nil
}

func FileRead(f *os.File, b []byte) (int, error) {
	h := FS.handles[f]
	if h == nil || h.closed {
		return 0, os.ErrClosed
	}
	if h.noRead {
		return 0, pathErr("read", h.p, syscall.EBADF)
	}
	if h.n.isDir {
		return 0, pathErr("read", h.p, syscall.EISDIR)
	}
	if len(b) == 0 {
		return 0, nil
	}
	if FS.OnRead != nil {
		if err := FS.OnRead(h.p, h.pos); err != nil {
			return 0, err
		}
	}
	if h.pos >= len(h.n.data) {
		return 0, io.EOF
	}
	n := copy(b, h.n.data[h.pos:])
	h.pos += n
	return n, nil
}

func FileWrite(f *os.File, b []byte) (int, error) {
	h := FS.handles[f]
	if h == nil || h.closed {
		return 0, os.ErrClosed
	}
	if h.noWrite {
		return 0, pathErr("write", h.p, syscall.EBADF)
	}
	if h.appnd {
		h.pos = len(h.n.data)
	}
	n := len(b)
	var err error
	if FS.OnWrite != nil {
		n, err = FS.OnWrite(h.p, len(b))
	}
	FS.Writes++
	if n > 0 {
		// a write of several bytes reaches the device in two parts, so that a crash can leave a
		// torn prefix of it (each part is a persistent mutation of its own)
		parts := []int{n}
		if n > 1 && TornWrites {
			parts = []int{n / 2, n - n/2}
		}
		off := 0
		for _, k := range parts {
			nd.Mutation("fs.write " + h.p)
			for len(h.n.data) < h.pos {
				h.n.data = append(h.n.data, 0)
			}
			keep := h.n.data[:h.pos:h.pos]
			tail := []byte(nil)
			if h.pos+k < len(h.n.data) {
				tail = h.n.data[h.pos+k:]
			}
			h.n.data = append(append(keep, b[off:off+k]...), tail...)
			h.pos += k
			off += k
		}
	}
	if err == nil && n < len(b) {
		err = io.ErrShortWrite
	}
	return n, err
}

func FileClose(f *os.File) error {
	h := FS.handles[f]
	if h == nil || h.closed {
		return os.ErrClosed
	}
	h.closed = true
	return nil
}

func FileSeek(f *os.File, offset int64, whence int) (int64, error) {
	h := FS.handles[f]
	if h == nil || h.closed {
		return 0, os.ErrClosed
	}
	switch whence {
	case io.SeekStart:
		h.pos = int(offset)
	case io.SeekCurrent:
		h.pos += int(offset)
	case io.SeekEnd:
		h.pos = len(h.n.data) + int(offset)
	}
	if h.pos < 0 {
		h.pos = 0
		return 0, syscall.EINVAL
	}
	return int64(h.pos), nil
}

type onlyReader struct{ f *os.File }

func (r onlyReader) Read(b []byte) (int, error) { return FileRead(r.f, b) }

type onlyWriter struct{ f *os.File }

func (w onlyWriter) Write(b []byte) (int, error) { return FileWrite(w.f, b) }

// (*os.File).WriteTo / ReadFrom fall back to the generic copy when no kernel fast path applies.
func FileWriteTo(f *os.File, w io.Writer) (int64, error)  { return io.Copy(w, onlyReader{f}) }
func FileReadFrom(f *os.File, r io.Reader) (int64, error) { return io.Copy(onlyWriter{f}, r) }

// ---------- the rest of the os surface a change to the repository may plausibly reach for ----------

type fileInfo struct {
	name string
	size int64
	dir  bool
}

func (i fileInfo) Name() string { return i.name }
func (i fileInfo) Size() int64  { return i.size }
func (i fileInfo) Mode() fs.FileMode {
	if i.dir {
		return fs.ModeDir | 0o755
	}
	return 0o644
}
func (i fileInfo) ModTime() time.Time { return time.Time{} }
func (i fileInfo) IsDir() bool        { return i.dir }
func (i fileInfo) Sys() any           { return nil }

func OsStat(name string) (os.FileInfo, error) {
	p := path.Clean(name)
	nd.Yield()
	n := FS.lookup(p)
	if n == nil {
		return nil, pathErr("stat", name, syscall.ENOENT)
	}
	return fileInfo{name: path.Base(p), size: int64(len(n.data)), dir: n.isDir}, nil
}

func FileStat(f *os.File) (os.FileInfo, error) {
	h := FS.handles[f]
	if h == nil || h.closed {
		return nil, os.ErrClosed
	}
	return fileInfo{name: path.Base(h.p), size: int64(len(h.n.data)), dir: h.n.isDir}, nil
}

func FileName(f *os.File) string {
	if h := FS.handles[f]; h != nil {
		return h.p
	}
	return ""
}

func FileSync(f *os.File) error {
	h := FS.handles[f]
	if h == nil || h.closed {
		return os.ErrClosed
	}
	return nil
}

func FileWriteString(f *os.File, s string) (int, error) { return FileWrite(f, []byte(s)) }

func FileTruncate(f *os.File, size int64) error {
	h := FS.handles[f]
	if h == nil || h.closed {
		return os.ErrClosed
	}
	if h.noWrite {
		return pathErr("truncate", h.p, syscall.EINVAL)
	}
	nd.Mutation("fs.truncate " + h.p)
	for int64(len(h.n.data)) < size {
		h.n.data = append(h.n.data, 0)
	}
	h.n.data = h.n.data[:size:size]
	return nil
}

func FileReadAt(f *os.File, b []byte, off int64) (int, error) {
	h := FS.handles[f]
	if h == nil || h.closed {
		return 0, os.ErrClosed
	}
	if h.noRead {
		return 0, pathErr("read", h.p, syscall.EBADF)
	}
	if off >= int64(len(h.n.data)) {
		return 0, io.EOF
	}
	n := copy(b, h.n.data[off:])
	if n < len(b) {
		return n, io.EOF
	}
	return n, nil
}

func OsReadFile(name string) ([]byte, error) {
	f, err := OsOpen(name)
	if err != nil {
		return nil, err
	}
	h := FS.handles[f]
	if h.n.isDir {
		return nil, pathErr("read", name, syscall.EISDIR)
	}
	out := append([]byte{}, h.n.data...)
	h.closed = true
	return out, nil
}

func OsWriteFile(name string, data []byte, perm os.FileMode) error {
	f, err := OsOpenFile(name, os.O_WRONLY|os.O_CREATE|os.O_TRUNC, perm)
	if err != nil {
		return err
	}
	_, err = FileWrite(f, data)
	if cerr := FileClose(f); err == nil {
		err = cerr
	}
	return err
}

func OsMkdir(name string, perm os.FileMode) error {
	p := path.Clean(name)
	if FS.lookup(p) != nil {
		return pathErr("mkdir", name, syscall.EEXIST)
	}
	parent := FS.lookup(path.Dir(p))
	if parent == nil {
		return pathErr("mkdir", name, syscall.ENOENT)
	}
	if !parent.isDir {
		return pathErr("mkdir", name, syscall.ENOTDIR)
	}
	nd.Mutation("fs.mkdir " + p)
	FS.add(p, &fnode{isDir: true})
	return nil
}

func OsRemoveAll(name string) error {
	p := path.Clean(name)
	if FS.nodes[p] == nil {
		nd.Yield()
		return nil
	}
	nd.Mutation("fs.removeall " + p)
	var doomed []string
	for _, x := range FS.names {
		if x == p || (len(x) > len(p)+1 && x[:len(p)] == p && x[len(p)] == '/') {
			doomed = append(doomed, x)
		}
	}
	for _, x := range doomed {
		if n := FS.nodes[x]; n != nil && !n.isDir {
			FS.Removes = append(FS.Removes, x)
		}
		FS.del(x)
	}
	return nil
}

func OsRename(oldpath, newpath string) error {
	o, n := path.Clean(oldpath), path.Clean(newpath)
	src := FS.nodes[o]
	if src == nil {
		nd.Yield()
		return &os.LinkError{Op: "rename", Old: oldpath, New: newpath, Err: syscall.ENOENT}
	}
	if src.isDir {
		return &os.LinkError{Op: "rename", Old: oldpath, New: newpath, Err: syscall.ENOSYS} // directories: not modelled
	}
	parent := FS.lookup(path.Dir(n))
	if parent == nil || !parent.isDir {
		return &os.LinkError{Op: "rename", Old: oldpath, New: newpath, Err: syscall.ENOENT}
	}
	if dst := FS.nodes[n]; dst != nil && dst.isDir {
		return &os.LinkError{Op: "rename", Old: oldpath, New: newpath, Err: syscall.EISDIR}
	}
	nd.Mutation("fs.rename " + o)
	if FS.nodes[n] != nil {
		FS.del(n)
		FS.Removes = append(FS.Removes, n)
	}
	FS.del(o)
	FS.Removes = append(FS.Removes, o)
	FS.add(n, src)
	FS.Creates = append(FS.Creates, n)
	for _, h := range FS.handles {
		if h.n == src {
			h.p = n
		}
	}
	return nil
}

// ---------- reading a directory through a handle (batched) ----------

// dirBatch: the entries the next batched read of a directory handle returns: all that remain
// for n <= 0, otherwise min(n, remaining); done reports "nothing was left" (io.EOF for n > 0).
func dirBatch(f *os.File, n int) (ents []dirEnt, count uint64, done bool, err error) {
	h := FS.handles[f]
	if h == nil || h.closed {
		return nil, 0, false, os.ErrClosed
	}
	if !h.n.isDir {
		return nil, 0, false, pathErr("readdirent", h.p, syscall.ENOTDIR)
	}
	nd.Yield()
	kids := FS.Children(h.p)
	for _, k := range kids {
		c := FS.nodes[path.Join(h.p, k)]
		ents = append(ents, dirEnt{name: k, dir: c != nil && c.isDir})
	}
	total := uint64(len(kids))
	if ExtraEntries != nil {
		total += ExtraEntries(h.p)
	}
	if h.dirPos > total {
		h.dirPos = total
	}
	remaining := total - h.dirPos
	if n <= 0 {
		h.dirPos = total
		return ents, remaining, false, nil
	}
	if remaining == 0 {
		return nil, 0, true, nil
	}
	count = nd.IteU64(remaining > uint64(n), uint64(n), remaining)
	h.dirPos += count
	return ents, count, false, nil
}

func FileReaddirnames(f *os.File, n int) ([]string, error) {
	ents, count, done, err := dirBatch(f, n)
	if err != nil {
		return nil, err
	}
	if done {
		return []string{}, io.EOF
	}
	names := make([]string, 0, len(ents))
	for _, e := range ents {
		names = append(names, e.name)
	}
	return nd.SymLen(names, count), nil
}

func FileReadDir(f *os.File, n int) ([]os.DirEntry, error) {
	ents, count, done, err := dirBatch(f, n)
	if err != nil {
		return nil, err
	}
	if done {
		return []os.DirEntry{}, io.EOF
	}
	out := make([]os.DirEntry, 0, len(ents))
	for _, e := range ents {
		out = append(out, e)
	}
	return nd.SymLen(out, count), nil
}

func FileReaddir(f *os.File, n int) ([]os.FileInfo, error) {
	ents, count, done, err := dirBatch(f, n)
	if err != nil {
		return nil, err
	}
	if done {
		return []os.FileInfo{}, io.EOF
	}
	out := make([]os.FileInfo, 0, len(ents))
	for _, e := range ents {
		out = append(out, fileInfo{name: e.name, dir: e.dir})
	}
	return nd.SymLen(out, count), nil
}

// OsTruncate: truncate(2) by path: every open descriptor of the file sees the new length.
func OsTruncate(name string, size int64) error {
	p := path.Clean(name)
	n := FS.lookup(p)
	if n == nil {
		nd.Yield()
		return pathErr("truncate", name, syscall.ENOENT)
	}
	if n.isDir {
		return pathErr("truncate", name, syscall.EISDIR)
	}
	nd.Mutation("fs.truncate " + p)
	for int64(len(n.data)) < size {
		n.data = append(n.data, 0)
	}
	n.data = n.data[:size:size]
	return nil
}
