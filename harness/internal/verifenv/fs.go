// Package verifenv holds the environment models the gosym engine substitutes for the operating
// system, the Badger library, gopsutil, the YAML decoder and (in sequential harnesses) the worker
// pool. They are ordinary Go, interpreted by the engine like the code under test; the engine
// redirects the library entry points to the functions here (engine/intrinsics.go, redirects).
// Contract of each model: DESIGN.md section 3.
package verifenv

import (
	"io"
	"io/fs"
	"os"
	"path"
	"sort"
	"syscall"

	nd "github.com/glebziz/fs_db/internal/verifnd"
)

type fnode struct {
	data  []byte
	isDir bool
}

type handle struct {
	p      string
	n      *fnode
	pos    int
	closed bool
}

// FSState is the file-system model: a flat table of cleaned paths.
type FSState struct {
	nodes   map[string]*fnode
	names   []string // every existing path, creation order
	handles map[*os.File]*handle

	// OnWrite, if set, decides how many of the n bytes of a Write to path are accepted and with
	// which error (fault injection: partial writes, no-space).
	OnWrite func(p string, n int) (int, error)
	// OnCreate, if set, may fail file creation.
	OnCreate func(p string) error
	// Creates / Removes record every created and removed regular file (for C14/C17 oracles).
	Creates []string
	Removes []string
	// MkdirFail makes MkdirAll fail for this path (unused unless set)
	Writes int
}

var FS = NewFS()

// TornWrites: file writes become durable in two halves (crash harnesses).
var TornWrites bool

func NewFS() *FSState {
	return &FSState{nodes: map[string]*fnode{}, handles: map[*os.File]*handle{}}
}

func pathErr(op, p string, e syscall.Errno) error {
	return &fs.PathError{Op: op, Path: p, Err: e}
}

func (s *FSState) lookup(p string) *fnode {
	p = path.Clean(p)
	if p == "." || p == "/" {
		return &fnode{isDir: true}
	}
	return s.nodes[p]
}

func (s *FSState) add(p string, n *fnode) {
	s.nodes[p] = n
	s.names = append(s.names, p)
}

func (s *FSState) del(p string) {
	delete(s.nodes, p)
	for i, x := range s.names {
		if x == p {
			s.names = append(s.names[:i:i], s.names[i+1:]...)
			return
		}
	}
}

// Exists, IsDir, Content, Files, Children: observation helpers for harness oracles.
func (s *FSState) Exists(p string) bool { return s.lookup(p) != nil }
func (s *FSState) IsDir(p string) bool {
	n := s.lookup(p)
	return n != nil && n.isDir
}
func (s *FSState) Content(p string) ([]byte, bool) {
	n := s.lookup(p)
	if n == nil || n.isDir {
		return nil, false
	}
	return n.data, true
}

// Files lists every regular file under root (recursively), sorted.
func (s *FSState) Files(root string) []string {
	root = path.Clean(root)
	var out []string
	for _, p := range s.names {
		n := s.nodes[p]
		if n == nil || n.isDir {
			continue
		}
		if len(p) > len(root)+1 && p[:len(root)] == root && p[len(root)] == '/' {
			out = append(out, p)
		}
	}
	sort.Strings(out)
	return out
}

// Children lists the names directly inside dir, sorted.
func (s *FSState) Children(dir string) []string {
	dir = path.Clean(dir)
	var out []string
	for _, p := range s.names {
		if path.Dir(p) == dir && p != dir {
			out = append(out, path.Base(p))
		}
	}
	sort.Strings(out)
	return out
}

// PutFile / PutDir let a harness build an arbitrary durable pre-state directly.
func (s *FSState) PutDir(p string) {
	p = path.Clean(p)
	if p == "." || p == "/" || s.nodes[p] != nil {
		return
	}
	s.PutDir(path.Dir(p))
	s.add(p, &fnode{isDir: true})
}
func (s *FSState) PutFile(p string, data []byte) {
	p = path.Clean(p)
	s.PutDir(path.Dir(p))
	if n := s.nodes[p]; n != nil {
		n.data = data
		return
	}
	s.add(p, &fnode{data: data})
}

// ---------- redirected library entry points ----------

func OsMkdirAll(p string, perm os.FileMode) error {
	p = path.Clean(p)
	if n := FS.lookup(p); n != nil {
		if n.isDir {
			return nil
		}
		return pathErr("mkdir", p, syscall.ENOTDIR)
	}
	nd.Mutation("fs.mkdir " + p)
	FS.PutDir(p)
	return nil
}

func OsCreate(name string) (*os.File, error) {
	p := path.Clean(name)
	if FS.OnCreate != nil {
		if err := FS.OnCreate(p); err != nil {
			return nil, err
		}
	}
	parent := FS.lookup(path.Dir(p))
	if parent == nil {
		return nil, pathErr("open", name, syscall.ENOENT)
	}
	if !parent.isDir {
		return nil, pathErr("open", name, syscall.ENOTDIR)
	}
	nd.Mutation("fs.create " + p)
	n := FS.nodes[p]
	if n != nil {
		if n.isDir {
			return nil, pathErr("open", name, syscall.EISDIR)
		}
		n.data = nil
	} else {
		n = &fnode{}
		FS.add(p, n)
	}
	FS.Creates = append(FS.Creates, p)
	f := new(os.File)
	FS.handles[f] = &handle{p: p, n: n}
	return f, nil
}

func OsOpen(name string) (*os.File, error) {
	p := path.Clean(name)
	nd.Yield()
	n := FS.lookup(p)
	if n == nil {
		return nil, pathErr("open", name, syscall.ENOENT)
	}
	f := new(os.File)
	FS.handles[f] = &handle{p: p, n: n}
	return f, nil
}

func OsRemove(name string) error {
	p := path.Clean(name)
	n := FS.nodes[p]
	if n == nil {
		nd.Yield()
		return pathErr("remove", name, syscall.ENOENT)
	}
	if n.isDir && len(FS.Children(p)) > 0 {
		return pathErr("remove", name, syscall.ENOTEMPTY)
	}
	nd.Mutation("fs.remove " + p)
	FS.del(p)
	if !n.isDir {
		FS.Removes = append(FS.Removes, p)
	}
	return nil
}

type dirEnt struct {
	name string
	dir  bool
}

func (d dirEnt) Name() string { return d.name }
func (d dirEnt) IsDir() bool  { return d.dir }
func (d dirEnt) Type() fs.FileMode {
	if d.dir {
		return fs.ModeDir
	}
	return 0
}
func (d dirEnt) Info() (fs.FileInfo, error) { return nil, syscall.ENOSYS }

// ExtraEntries, if set, adds a symbolic number of further (inaccessible) entries to what ReadDir
// reports for a directory: "the directory already holds b more files" (C17).
var ExtraEntries func(dir string) uint64

func OsReadDir(name string) ([]os.DirEntry, error) {
	p := path.Clean(name)
	nd.Yield()
	n := FS.lookup(p)
	if n == nil {
		return nil, pathErr("open", name, syscall.ENOENT)
	}
	if !n.isDir {
		return nil, pathErr("readdirent", name, syscall.ENOTDIR)
	}
	kids := FS.Children(p)
	out := make([]os.DirEntry, 0, len(kids))
	for _, k := range kids {
		c := FS.nodes[path.Join(p, k)]
		out = append(out, dirEnt{name: k, dir: c != nil && c.isDir})
	}
	if ExtraEntries != nil {
		return nd.SymLen(out, uint64(len(out))+ExtraEntries(p)), nil
	}
	return out, nil
}

func FileRead(f *os.File, b []byte) (int, error) {
	h := FS.handles[f]
	if h == nil || h.closed {
		return 0, os.ErrClosed
	}
	if len(b) == 0 {
		return 0, nil
	}
	if h.pos >= len(h.n.data) {
		return 0, io.EOF
	}
	n := copy(b, h.n.data[h.pos:])
	h.pos += n
	return n, nil
}

func FileWrite(f *os.File, b []byte) (int, error) {
	h := FS.handles[f]
	if h == nil || h.closed {
		return 0, os.ErrClosed
	}
	n := len(b)
	var err error
	if FS.OnWrite != nil {
		n, err = FS.OnWrite(h.p, len(b))
	}
	FS.Writes++
	if n > 0 {
		// a write of several bytes reaches the device in two parts, so that a crash can leave a
		// torn prefix of it (each part is a persistent mutation of its own)
		parts := []int{n}
		if n > 1 && TornWrites {
			parts = []int{n / 2, n - n/2}
		}
		off := 0
		for _, k := range parts {
			nd.Mutation("fs.write " + h.p)
			for len(h.n.data) < h.pos {
				h.n.data = append(h.n.data, 0)
			}
			keep := h.n.data[:h.pos:h.pos]
			tail := []byte(nil)
			if h.pos+k < len(h.n.data) {
				tail = h.n.data[h.pos+k:]
			}
			h.n.data = append(append(keep, b[off:off+k]...), tail...)
			h.pos += k
			off += k
		}
	}
	if err == nil && n < len(b) {
		err = io.ErrShortWrite
	}
	return n, err
}

func FileClose(f *os.File) error {
	h := FS.handles[f]
	if h == nil || h.closed {
		return os.ErrClosed
	}
	h.closed = true
	return nil
}

func FileSeek(f *os.File, offset int64, whence int) (int64, error) {
	h := FS.handles[f]
	if h == nil || h.closed {
		return 0, os.ErrClosed
	}
	switch whence {
	case io.SeekStart:
		h.pos = int(offset)
	case io.SeekCurrent:
		h.pos += int(offset)
	case io.SeekEnd:
		h.pos = len(h.n.data) + int(offset)
	}
	if h.pos < 0 {
		h.pos = 0
		return 0, syscall.EINVAL
	}
	return int64(h.pos), nil
}

type onlyReader struct{ f *os.File }

func (r onlyReader) Read(b []byte) (int, error) { return FileRead(r.f, b) }

type onlyWriter struct{ f *os.File }

func (w onlyWriter) Write(b []byte) (int, error) { return FileWrite(w.f, b) }

// (*os.File).WriteTo / ReadFrom fall back to the generic copy when no kernel fast path applies.
func FileWriteTo(f *os.File, w io.Writer) (int64, error) { return io.Copy(w, onlyReader{f}) }
func FileReadFrom(f *os.File, r io.Reader) (int64, error) { return io.Copy(onlyWriter{f}, r) }
