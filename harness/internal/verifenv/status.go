package verifenv

import (
	"errors"

	"google.golang.org/grpc"
	"google.golang.org/grpc/codes"
	"google.golang.org/grpc/status"
	"google.golang.org/protobuf/protoadapt"
)

// Record model of grpc/status: {code, message, details}. The real implementation packs details
// into protobuf Any values by reflection, which is outside what the engine interprets; the contract
// kept here: New/WithDetails/Err/Convert/Code/Message/Details behave as documented, details
// survive the transport unless DropDetails is set (an intermediary that strips them).

type stRec struct {
	code    codes.Code
	msg     string
	details []any
}

var statuses = map[*status.Status]*stRec{}

// DropDetails makes the loop-back transport deliver only code and message.
var DropDetails bool

func newStatus(r *stRec) *status.Status {
	s := new(status.Status)
	statuses[s] = r
	return s
}

func StatusNew(c codes.Code, msg string) *status.Status { return newStatus(&stRec{code: c, msg: msg}) }

func StatusWithDetails(s *status.Status, details ...protoadapt.MessageV1) (*status.Status, error) {
	r := statuses[s]
	if r == nil || r.code == codes.OK {
		return nil, errors.New("no error details for status with code OK")
	}
	n := &stRec{code: r.code, msg: r.msg, details: append([]any{}, r.details...)}
	for _, d := range details {
		n.details = append(n.details, d)
	}
	return newStatus(n), nil
}

// StatusError is what (*Status).Err returns.
type StatusError struct{ s *status.Status }

func (e *StatusError) Error() string {
	r := statuses[e.s]
	return "rpc error: code = " + codeName(r.code) + " desc = " + r.msg
}
func (e *StatusError) GRPCStatus() *status.Status { return e.s }

func codeName(c codes.Code) string {
	names := []string{"OK", "Canceled", "Unknown", "InvalidArgument", "DeadlineExceeded", "NotFound", "AlreadyExists", "PermissionDenied",
		"ResourceExhausted", "FailedPrecondition", "Aborted", "OutOfRange", "Unimplemented", "Internal", "Unavailable", "DataLoss", "Unauthenticated"}
	if int(c) < len(names) {
		return names[c]
	}
	return "Code(?)"
}

func StatusErr(s *status.Status) error {
	r := statuses[s]
	if s == nil || r == nil || r.code == codes.OK {
		return nil
	}
	return &StatusError{s}
}

func StatusConvert(err error) *status.Status {
	if err == nil {
		return nil
	}
	if se, ok := err.(*StatusError); ok {
		return se.s
	}
	var se *StatusError
	if errors.As(err, &se) {
		r := statuses[se.s]
		return newStatus(&stRec{code: r.code, msg: err.Error(), details: r.details})
	}
	return StatusNew(codes.Unknown, err.Error())
}

func StatusCode(s *status.Status) codes.Code {
	r := statuses[s]
	if s == nil || r == nil {
		return codes.OK
	}
	return r.code
}

func StatusMessage(s *status.Status) string {
	r := statuses[s]
	if s == nil || r == nil {
		return ""
	}
	return r.msg
}

func StatusDetails(s *status.Status) []any {
	r := statuses[s]
	if s == nil || r == nil {
		return nil
	}
	return append([]any{}, r.details...)
}

// Transport is what an error returned by a server handler looks like on the client side.
func Transport(err error) error {
	if err == nil {
		return nil
	}
	st := StatusConvert(err)
	r := statuses[st]
	n := &stRec{code: r.code, msg: r.msg}
	if !DropDetails {
		n.details = append([]any{}, r.details...)
	}
	return StatusErr(newStatus(n))
}

// ---------- two independent environments (lock-step comparison of two stacks) ----------

type envSlot struct {
	kv      *KVState
	fs      *FSState
	free    map[string]uint64
	jobs    []Job
	running bool
	used    bool
}

var (
	slots   [2]envSlot
	curSlot int
)

// Switch makes environment i (0 or 1) the current one; each has its own durable tables, file
// system, free-space table and job queue.
func Switch(i int) {
	slots[curSlot] = envSlot{KV, FS, Free, Jobs, PoolRunning, true}
	s := slots[i]
	if !s.used {
		s = envSlot{kv: NewKV(), fs: NewFS(), free: map[string]uint64{}, used: true}
	}
	KV, FS, Free, Jobs, PoolRunning = s.kv, s.fs, s.free, s.jobs, s.running
	curSlot = i
}

// ---------- grpc server construction (internal/app.New): the server object is a token; what is
// registered on it is what the loop-back transport dispatches to ----------

// Registered is the service implementation most recently registered on a grpc.Server.
var Registered any

func GrpcNewServer(opt ...grpc.ServerOption) *grpc.Server { return new(grpc.Server) }

func GrpcChainUnaryInterceptor(interceptors ...grpc.UnaryServerInterceptor) grpc.ServerOption {
	return nil
}

func GrpcChainStreamInterceptor(interceptors ...grpc.StreamServerInterceptor) grpc.ServerOption {
	return nil
}

func GrpcRegisterService(s *grpc.Server, sd *grpc.ServiceDesc, ss any) { Registered = ss }
