package verifenv

import (
	"context"
	"io"
	"path"
	"syscall"
	"time"

	"github.com/shirou/gopsutil/disk"
	"gopkg.in/yaml.v2"

	"github.com/glebziz/fs_db/internal/utils/wpool"
	nd "github.com/glebziz/fs_db/internal/verifnd"
)

// ---------- free space ----------

// Free is the free space gopsutil reports per root; absent roots report DefaultFree.
var (
	Free        = map[string]uint64{}
	DefaultFree = uint64(1) << 40
)

func DiskUsage(ctx context.Context, p string) (*disk.UsageStat, error) {
	nd.Yield()
	if !FS.IsDir(p) {
		return nil, syscall.ENOENT
	}
	free, ok := Free[path.Clean(p)]
	if !ok {
		free = DefaultFree
	}
	return &disk.UsageStat{Path: p, Free: free, Total: free, Used: 0}, nil
}

// ---------- environment variables ----------

var EnvHook func(key string) (string, bool)

func OsLookupEnv(key string) (string, bool) {
	if EnvHook != nil {
		return EnvHook(key)
	}
	return "", false
}

// ---------- YAML decoder: contract stub (fields present in the file are overwritten) ----------

var YamlHook func(v interface{}) error

func YamlNewDecoder(r io.Reader) *yaml.Decoder { return new(yaml.Decoder) }

func YamlDecode(d *yaml.Decoder, v interface{}) error {
	if YamlHook != nil {
		return YamlHook(v)
	}
	return io.EOF
}

// ---------- worker pool in sequential harnesses (redirect mode "seqpool") ----------

type Job struct {
	Ctx context.Context
	E   wpool.Event
}

// Jobs queued by Send while the sequential-pool mode is on; the harness runs them where it wants.
var Jobs []Job

// Running mirrors Run/Stop of the replaced pool.
var PoolRunning bool

func PoolRun(p *wpool.Pool, ctx context.Context) { PoolRunning = true }
func PoolSend(p *wpool.Pool, ctx context.Context, e wpool.Event) {
	if !PoolRunning {
		return
	}
	Jobs = append(Jobs, Job{Ctx: ctx, E: e})
}
func PoolSched(p *wpool.Pool, ctx context.Context, e wpool.Event, period time.Duration) {}
func PoolStop(p *wpool.Pool) {
	PoolRunning = false
	Jobs = nil
}

// RunJobs runs every queued job (including jobs queued by jobs) and returns how many ran.
func RunJobs() int {
	n := 0
	for len(Jobs) > 0 {
		j := Jobs[0]
		Jobs = Jobs[1:]
		_ = j.E.Fn(j.Ctx)
		n++
	}
	return n
}

// Reset gives a fresh environment (used between a "process" and its successor only for the
// volatile parts: handles, queued jobs; durable FS/KV state is kept).
func Restart() {
	Jobs = nil
	PoolRunning = false
	for _, s := range KV.stores {
		s.open = false
	}
}
