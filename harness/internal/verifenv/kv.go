package verifenv

import (
	"errors"
	"sort"

	"github.com/dgraph-io/badger/v3"

	nd "github.com/glebziz/fs_db/internal/verifnd"
)

// Library-level model of Badger: a durable table per directory. Contract: a transaction's writes
// become durable atomically when Update's closure returns nil, View reads a consistent snapshot,
// iteration is in byte order of keys, ErrKeyNotFound for absent keys, every operation is
// linearizable (one scheduling/mutation point each).

type kvStore struct {
	vals map[string][]byte
	keys []string
	open bool
	// hist: every committed version of every key, oldest first, tombstones included (Badger is
	// multi-versioned: old versions stay until a compaction drops them, and an iterator opened
	// with AllVersions sees them; the model never compacts)
	hist map[string][]histEnt
}

type histEnt struct {
	val []byte
	del bool
}

type pending struct {
	key string
	val []byte
	del bool
	// Txn.Set keeps references to the caller's key and value slices until the transaction ends
	// (documented: they must not be modified before that); the model writes what they hold at
	// commit time, not at Set time
	keyRef []byte
}

type txnState struct {
	st     *kvStore
	update bool
	writes []pending
}

type iterEnt struct {
	key string
	val []byte
	del bool
	ver uint64
}

type iterState struct {
	tx      *txnState
	ents    []iterEnt
	pos     int
	reverse bool
	prefix  string
	cur     *itemState // the item handed out at the current position
}

type itemState struct {
	key string
	val []byte
	// items of an iterator: the library reuses their buffers. Item.Key is documented as valid
	// until the next Iterator.Next, the slice passed to the Item.Value callback as valid only
	// inside the callback; the model hands out copies and overwrites them when that ends, so
	// that a retained alias shows up at any size, not only beyond the prefetch window.
	fromIter bool
	keyBuf   []byte
	del      bool
	ver      uint64
}

func poison(b []byte) {
	for i := range b {
		b[i] = 0xA5
	}
}

type KVState struct {
	stores map[string]*kvStore
	dbs    map[*badger.DB]*kvStore
	txns   map[*badger.Txn]*txnState
	iters  map[*badger.Iterator]*iterState
	items  map[*badger.Item]*itemState
	// OnCommit, if set, may make a commit fail (fault injection); nothing is applied then.
	OnCommit func() error
	Commits  int
}

var KV = NewKV()

func NewKV() *KVState {
	return &KVState{stores: map[string]*kvStore{}, dbs: map[*badger.DB]*kvStore{}, txns: map[*badger.Txn]*txnState{},
		iters: map[*badger.Iterator]*iterState{}, items: map[*badger.Item]*itemState{}}
}

func (k *KVState) Store(dir string) *kvStore {
	s := k.stores[dir]
	if s == nil {
		s = &kvStore{vals: map[string][]byte{}}
		k.stores[dir] = s
	}
	return s
}

// Put / Get / Keys / Del: direct access for harness pre-states and oracles.
func (s *kvStore) Put(key string, val []byte) {
	if _, ok := s.vals[key]; !ok {
		s.keys = append(s.keys, key)
	}
	s.vals[key] = val
	if s.hist == nil {
		s.hist = map[string][]histEnt{}
	}
	s.hist[key] = append(s.hist[key], histEnt{val: val})
}
func (s *kvStore) Get(key string) ([]byte, bool) {
	v, ok := s.vals[key]
	return v, ok
}
func (s *kvStore) Del(key string) {
	if s.hist == nil {
		s.hist = map[string][]histEnt{}
	}
	s.hist[key] = append(s.hist[key], histEnt{del: true})
	if _, ok := s.vals[key]; !ok {
		return
	}
	delete(s.vals, key)
	for i, x := range s.keys {
		if x == key {
			s.keys = append(s.keys[:i:i], s.keys[i+1:]...)
			return
		}
	}
}
func (s *kvStore) Keys(prefix string) []string {
	var out []string
	for _, k := range s.keys {
		if len(k) >= len(prefix) && k[:len(prefix)] == prefix {
			out = append(out, k)
		}
	}
	sort.Strings(out)
	return out
}

// Badger's own error variables are created by its package initialiser, which the engine does not
// run; the one the code under test compares against is planted here, the others are local.
var (
	errDBClosed     = errors.New("DB Closed")
	errDiscardedTxn = errors.New("This transaction has been discarded. Create a new one")
	errReadOnlyTxn  = errors.New("No sets or deletes are allowed in a read-only transaction")
	errEmptyKey     = errors.New("Key cannot be empty")
	errNoRewrite    = errors.New("Value log GC attempt didn't result in any cleanup")
)

func init() {
	badger.ErrKeyNotFound = errors.New("Key not found")
}

func BadgerDefaultOptions(p string) badger.Options {
	return badger.Options{Dir: p, ValueDir: p}
}

func BadgerOpen(opt badger.Options) (*badger.DB, error) {
	s := KV.Store(opt.Dir)
	if s.open {
		return nil, errors.New("Cannot acquire directory lock: another process is using this Badger database")
	}
	s.open = true
	db := new(badger.DB)
	KV.dbs[db] = s
	return db, nil
}

func DBClose(db *badger.DB) error {
	s := KV.dbs[db]
	if s != nil {
		s.open = false
	}
	return nil
}

func DBRunValueLogGC(db *badger.DB, ratio float64) error { return errNoRewrite }

func DBUpdate(db *badger.DB, fn func(txn *badger.Txn) error) error {
	s := KV.dbs[db]
	if s == nil || !s.open {
		return errDBClosed
	}
	txn := new(badger.Txn)
	ts := &txnState{st: s, update: true}
	KV.txns[txn] = ts
	err := fn(txn)
	delete(KV.txns, txn)
	if err != nil {
		return err
	}
	if len(ts.writes) == 0 {
		return nil
	}
	if KV.OnCommit != nil {
		if err := KV.OnCommit(); err != nil {
			return err
		}
	}
	nd.Mutation("kv.commit")
	for _, w := range ts.writes {
		if w.del {
			s.Del(w.key)
		} else {
			s.Put(string(w.keyRef), append([]byte{}, w.val...))
		}
	}
	KV.Commits++
	return nil
}

func DBView(db *badger.DB, fn func(txn *badger.Txn) error) error {
	s := KV.dbs[db]
	if s == nil || !s.open {
		return errDBClosed
	}
	nd.Yield()
	txn := new(badger.Txn)
	KV.txns[txn] = &txnState{st: s}
	err := fn(txn)
	delete(KV.txns, txn)
	return err
}

func TxnSet(txn *badger.Txn, key, val []byte) error {
	ts := KV.txns[txn]
	if ts == nil {
		return errDiscardedTxn
	}
	if !ts.update {
		return errReadOnlyTxn
	}
	if len(key) == 0 {
		return errEmptyKey
	}
	ts.writes = append(ts.writes, pending{key: string(key), val: val, keyRef: key})
	return nil
}

func TxnDelete(txn *badger.Txn, key []byte) error {
	ts := KV.txns[txn]
	if ts == nil {
		return errDiscardedTxn
	}
	if !ts.update {
		return errReadOnlyTxn
	}
	ts.writes = append(ts.writes, pending{key: string(key), del: true})
	return nil
}

func (ts *txnState) read(key string) ([]byte, bool) {
	for i := len(ts.writes) - 1; i >= 0; i-- {
		if ts.writes[i].key == key {
			if ts.writes[i].del {
				return nil, false
			}
			return ts.writes[i].val, true
		}
	}
	return ts.st.Get(key)
}

func TxnGet(txn *badger.Txn, key []byte) (*badger.Item, error) {
	ts := KV.txns[txn]
	if ts == nil {
		return nil, errDiscardedTxn
	}
	v, ok := ts.read(string(key))
	if !ok {
		return nil, badger.ErrKeyNotFound
	}
	it := new(badger.Item)
	KV.items[it] = &itemState{key: string(key), val: v}
	return it, nil
}

func TxnNewIterator(txn *badger.Txn, opt badger.IteratorOptions) *badger.Iterator {
	ts := KV.txns[txn]
	it := new(badger.Iterator)
	is := &iterState{tx: ts, reverse: opt.Reverse, prefix: string(opt.Prefix)}
	if ts != nil {
		var keys []string
		seen := map[string]bool{}
		if opt.AllVersions {
			for k := range ts.st.hist {
				keys = append(keys, k)
				seen[k] = true
			}
		} else {
			for _, k := range ts.st.keys {
				if _, ok := ts.read(k); ok {
					keys = append(keys, k)
					seen[k] = true
				}
			}
		}
		for _, w := range ts.writes {
			if !w.del && !seen[w.key] {
				if _, ok := ts.read(w.key); ok {
					keys = append(keys, w.key)
					seen[w.key] = true
				}
			}
		}
		sort.Strings(keys)
		for _, k := range keys {
			if opt.AllVersions {
				// the transaction's own pending write first, then every committed version, newest first
				if v, ok := ts.pendingWrite(k); ok {
					is.ents = append(is.ents, iterEnt{key: k, val: v.val, del: v.del, ver: 1 << 62})
				}
				h := ts.st.hist[k]
				for i := len(h) - 1; i >= 0; i-- {
					is.ents = append(is.ents, iterEnt{key: k, val: h[i].val, del: h[i].del, ver: uint64(i + 1)})
				}
			} else {
				v, _ := ts.read(k)
				is.ents = append(is.ents, iterEnt{key: k, val: v, ver: uint64(len(ts.st.hist[k]))})
			}
		}
		if opt.Reverse {
			for i, j := 0, len(is.ents)-1; i < j; i, j = i+1, j-1 {
				is.ents[i], is.ents[j] = is.ents[j], is.ents[i]
			}
		}
	}
	is.pos = len(is.ents)
	KV.iters[it] = is
	return it
}

func (ts *txnState) pendingWrite(key string) (pending, bool) {
	for i := len(ts.writes) - 1; i >= 0; i-- {
		if ts.writes[i].key == key {
			return ts.writes[i], true
		}
	}
	return pending{}, false
}

func (is *iterState) inPrefix(k string) bool {
	return len(k) >= len(is.prefix) && k[:len(is.prefix)] == is.prefix
}

func IterSeek(it *badger.Iterator, key []byte) {
	is := KV.iters[it]
	k := string(key)
	if len(key) == 0 {
		k = is.prefix
	}
	is.pos = 0
	if is.reverse {
		for is.pos < len(is.ents) && len(key) > 0 && is.ents[is.pos].key > k {
			is.pos++
		}
		return
	}
	for is.pos < len(is.ents) && is.ents[is.pos].key < k {
		is.pos++
	}
}

func IterRewind(it *badger.Iterator) { IterSeek(it, nil) }

func IterValid(it *badger.Iterator) bool {
	is := KV.iters[it]
	return is.pos < len(is.ents) && is.inPrefix(is.ents[is.pos].key)
}

func IterValidForPrefix(it *badger.Iterator, prefix []byte) bool {
	is := KV.iters[it]
	if !IterValid(it) {
		return false
	}
	k := is.ents[is.pos].key
	p := string(prefix)
	return len(k) >= len(p) && k[:len(p)] == p
}

func IterNext(it *badger.Iterator) {
	is := KV.iters[it]
	if is.cur != nil {
		poison(is.cur.keyBuf)
		is.cur = nil
	}
	is.pos++
}

func IterItem(it *badger.Iterator) *badger.Item {
	is := KV.iters[it]
	e := is.ents[is.pos]
	item := new(badger.Item)
	st := &itemState{key: e.key, val: e.val, fromIter: true, del: e.del, ver: e.ver}
	KV.items[item] = st
	is.cur = st
	return item
}

func IterClose(it *badger.Iterator) {
	if is := KV.iters[it]; is != nil && is.cur != nil {
		poison(is.cur.keyBuf)
	}
	delete(KV.iters, it)
}

func ItemKey(item *badger.Item) []byte {
	is := KV.items[item]
	if !is.fromIter {
		return []byte(is.key)
	}
	if is.keyBuf == nil {
		is.keyBuf = []byte(is.key)
	}
	return is.keyBuf
}

func ItemValue(item *badger.Item, fn func(val []byte) error) error {
	is := KV.items[item]
	if fn == nil {
		return nil
	}
	if !is.fromIter {
		// items of Txn.Get: the value stays valid (as it does in the default, non-jemalloc build)
		return fn(is.val)
	}
	buf := append([]byte{}, is.val...)
	err := fn(buf)
	poison(buf)
	return err
}

// further Item accessors
func ItemIsDeletedOrExpired(item *badger.Item) bool { return KV.items[item].del }
func ItemVersion(item *badger.Item) uint64          { return KV.items[item].ver }
func ItemUserMeta(item *badger.Item) byte           { return 0 }
func ItemExpiresAt(item *badger.Item) uint64        { return 0 }
func ItemValueSize(item *badger.Item) int64         { return int64(len(KV.items[item].val)) }
func ItemEstimatedSize(item *badger.Item) int64 {
	return int64(len(KV.items[item].key) + len(KV.items[item].val))
}
func ItemKeyCopy(item *badger.Item, dst []byte) []byte {
	return append(dst[:0], KV.items[item].key...)
}
func ItemValueCopy(item *badger.Item, dst []byte) ([]byte, error) {
	return append(dst[:0], KV.items[item].val...), nil
}
func ItemString(item *badger.Item) string { return KV.items[item].key }
