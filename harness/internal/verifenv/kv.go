package verifenv

import (
	"errors"
	"sort"

	"github.com/dgraph-io/badger/v3"

	nd "github.com/glebziz/fs_db/internal/verifnd"
)

// Library-level model of Badger: a durable table per directory. Contract: a transaction's writes
// become durable atomically when Update's closure returns nil, View reads a consistent snapshot,
// iteration is in byte order of keys, ErrKeyNotFound for absent keys, every operation is
// linearizable (one scheduling/mutation point each).

type kvStore struct {
	vals map[string][]byte
	keys []string
	open bool
}

type pending struct {
	key string
	val []byte
	del bool
	// Txn.Set keeps references to the caller's key and value slices until the transaction ends
	// (documented: they must not be modified before that); the model writes what they hold at
	// commit time, not at Set time
	keyRef []byte
}

type txnState struct {
	st     *kvStore
	update bool
	writes []pending
}

type iterState struct {
	tx   *txnState
	keys []string
	pos  int
	cur  *itemState // the item handed out at the current position
}

type itemState struct {
	key string
	val []byte
	// items of an iterator: the library reuses their buffers. Item.Key is documented as valid
	// until the next Iterator.Next, the slice passed to the Item.Value callback as valid only
	// inside the callback; the model hands out copies and overwrites them when that ends, so
	// that a retained alias shows up at any size, not only beyond the prefetch window.
	fromIter bool
	keyBuf   []byte
}

func poison(b []byte) {
	for i := range b {
		b[i] = 0xA5
	}
}

type KVState struct {
	stores map[string]*kvStore
	dbs    map[*badger.DB]*kvStore
	txns   map[*badger.Txn]*txnState
	iters  map[*badger.Iterator]*iterState
	items  map[*badger.Item]*itemState
	// OnCommit, if set, may make a commit fail (fault injection); nothing is applied then.
	OnCommit func() error
	Commits  int
}

var KV = NewKV()

func NewKV() *KVState {
	return &KVState{stores: map[string]*kvStore{}, dbs: map[*badger.DB]*kvStore{}, txns: map[*badger.Txn]*txnState{},
		iters: map[*badger.Iterator]*iterState{}, items: map[*badger.Item]*itemState{}}
}

func (k *KVState) Store(dir string) *kvStore {
	s := k.stores[dir]
	if s == nil {
		s = &kvStore{vals: map[string][]byte{}}
		k.stores[dir] = s
	}
	return s
}

// Put / Get / Keys / Del: direct access for harness pre-states and oracles.
func (s *kvStore) Put(key string, val []byte) {
	if _, ok := s.vals[key]; !ok {
		s.keys = append(s.keys, key)
	}
	s.vals[key] = val
}
func (s *kvStore) Get(key string) ([]byte, bool) {
	v, ok := s.vals[key]
	return v, ok
}
func (s *kvStore) Del(key string) {
	if _, ok := s.vals[key]; !ok {
		return
	}
	delete(s.vals, key)
	for i, x := range s.keys {
		if x == key {
			s.keys = append(s.keys[:i:i], s.keys[i+1:]...)
			return
		}
	}
}
func (s *kvStore) Keys(prefix string) []string {
	var out []string
	for _, k := range s.keys {
		if len(k) >= len(prefix) && k[:len(prefix)] == prefix {
			out = append(out, k)
		}
	}
	sort.Strings(out)
	return out
}

// Badger's own error variables are created by its package initialiser, which the engine does not
// run; the one the code under test compares against is planted here, the others are local.
var (
	errDBClosed     = errors.New("DB Closed")
	errDiscardedTxn = errors.New("This transaction has been discarded. Create a new one")
	errReadOnlyTxn  = errors.New("No sets or deletes are allowed in a read-only transaction")
	errEmptyKey     = errors.New("Key cannot be empty")
	errNoRewrite    = errors.New("Value log GC attempt didn't result in any cleanup")
)

func init() {
	badger.ErrKeyNotFound = errors.New("Key not found")
}

func BadgerDefaultOptions(p string) badger.Options {
	return badger.Options{Dir: p, ValueDir: p}
}

func BadgerOpen(opt badger.Options) (*badger.DB, error) {
	s := KV.Store(opt.Dir)
	if s.open {
		return nil, errors.New("Cannot acquire directory lock: another process is using this Badger database")
	}
	s.open = true
	db := new(badger.DB)
	KV.dbs[db] = s
	return db, nil
}

func DBClose(db *badger.DB) error {
	s := KV.dbs[db]
	if s != nil {
		s.open = false
	}
	return nil
}

func DBRunValueLogGC(db *badger.DB, ratio float64) error { return errNoRewrite }

func DBUpdate(db *badger.DB, fn func(txn *badger.Txn) error) error {
	s := KV.dbs[db]
	if s == nil || !s.open {
		return errDBClosed
	}
	txn := new(badger.Txn)
	ts := &txnState{st: s, update: true}
	KV.txns[txn] = ts
	err := fn(txn)
	delete(KV.txns, txn)
	if err != nil {
		return err
	}
	if len(ts.writes) == 0 {
		return nil
	}
	if KV.OnCommit != nil {
		if err := KV.OnCommit(); err != nil {
			return err
		}
	}
	nd.Mutation("kv.commit")
	for _, w := range ts.writes {
		if w.del {
			s.Del(w.key)
		} else {
			s.Put(string(w.keyRef), append([]byte{}, w.val...))
		}
	}
	KV.Commits++
	return nil
}

func DBView(db *badger.DB, fn func(txn *badger.Txn) error) error {
	s := KV.dbs[db]
	if s == nil || !s.open {
		return errDBClosed
	}
	nd.Yield()
	txn := new(badger.Txn)
	KV.txns[txn] = &txnState{st: s}
	err := fn(txn)
	delete(KV.txns, txn)
	return err
}

func TxnSet(txn *badger.Txn, key, val []byte) error {
	ts := KV.txns[txn]
	if ts == nil {
		return errDiscardedTxn
	}
	if !ts.update {
		return errReadOnlyTxn
	}
	if len(key) == 0 {
		return errEmptyKey
	}
	ts.writes = append(ts.writes, pending{key: string(key), val: val, keyRef: key})
	return nil
}

func TxnDelete(txn *badger.Txn, key []byte) error {
	ts := KV.txns[txn]
	if ts == nil {
		return errDiscardedTxn
	}
	if !ts.update {
		return errReadOnlyTxn
	}
	ts.writes = append(ts.writes, pending{key: string(key), del: true})
	return nil
}

func (ts *txnState) read(key string) ([]byte, bool) {
	for i := len(ts.writes) - 1; i >= 0; i-- {
		if ts.writes[i].key == key {
			if ts.writes[i].del {
				return nil, false
			}
			return ts.writes[i].val, true
		}
	}
	return ts.st.Get(key)
}

func TxnGet(txn *badger.Txn, key []byte) (*badger.Item, error) {
	ts := KV.txns[txn]
	if ts == nil {
		return nil, errDiscardedTxn
	}
	v, ok := ts.read(string(key))
	if !ok {
		return nil, badger.ErrKeyNotFound
	}
	it := new(badger.Item)
	KV.items[it] = &itemState{key: string(key), val: v}
	return it, nil
}

func TxnNewIterator(txn *badger.Txn, opt badger.IteratorOptions) *badger.Iterator {
	ts := KV.txns[txn]
	it := new(badger.Iterator)
	is := &iterState{tx: ts}
	if ts != nil {
		seen := map[string]bool{}
		for _, k := range ts.st.keys {
			if _, ok := ts.read(k); ok {
				is.keys = append(is.keys, k)
				seen[k] = true
			}
		}
		for _, w := range ts.writes {
			if !w.del && !seen[w.key] {
				if _, ok := ts.read(w.key); ok {
					is.keys = append(is.keys, w.key)
					seen[w.key] = true
				}
			}
		}
		sort.Strings(is.keys)
	}
	is.pos = len(is.keys)
	KV.iters[it] = is
	return it
}

func IterSeek(it *badger.Iterator, key []byte) {
	is := KV.iters[it]
	k := string(key)
	is.pos = 0
	for is.pos < len(is.keys) && is.keys[is.pos] < k {
		is.pos++
	}
}

func IterValidForPrefix(it *badger.Iterator, prefix []byte) bool {
	is := KV.iters[it]
	if is.pos >= len(is.keys) {
		return false
	}
	k := is.keys[is.pos]
	p := string(prefix)
	return len(k) >= len(p) && k[:len(p)] == p
}

func IterNext(it *badger.Iterator) {
	is := KV.iters[it]
	if is.cur != nil {
		poison(is.cur.keyBuf)
		is.cur = nil
	}
	is.pos++
}

func IterItem(it *badger.Iterator) *badger.Item {
	is := KV.iters[it]
	k := is.keys[is.pos]
	v, _ := is.tx.read(k)
	item := new(badger.Item)
	st := &itemState{key: k, val: v, fromIter: true}
	KV.items[item] = st
	is.cur = st
	return item
}

func IterClose(it *badger.Iterator) {
	if is := KV.iters[it]; is != nil && is.cur != nil {
		poison(is.cur.keyBuf)
	}
	delete(KV.iters, it)
}

func ItemKey(item *badger.Item) []byte {
	is := KV.items[item]
	if !is.fromIter {
		return []byte(is.key)
	}
	if is.keyBuf == nil {
		is.keyBuf = []byte(is.key)
	}
	return is.keyBuf
}

func ItemValue(item *badger.Item, fn func(val []byte) error) error {
	is := KV.items[item]
	if fn == nil {
		return nil
	}
	if !is.fromIter {
		// items of Txn.Get: the value stays valid (as it does in the default, non-jemalloc build)
		return fn(is.val)
	}
	buf := append([]byte{}, is.val...)
	err := fn(buf)
	poison(buf)
	return err
}
