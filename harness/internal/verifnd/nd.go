// Package verifnd (imported as nd) is the harness API of the gosym symbolic executor.
//
// Inside the engine every function of this package is an intrinsic: U64/U8/Bool/Bytes introduce
// symbolic variables, Choice forks, Assume/Assert talk to the solver. The bodies below are the
// native semantics used when a counterexample is replayed with the ordinary Go tool chain
// (go test -overlay): values and choices come from the replay file named by VERIF_REPLAY.
package verifnd

import (
	"encoding/json"
	"fmt"
	"os"
)

type replayDoc struct {
	Violation struct {
		Model   map[string]uint64 `json:"model"`
		Choices []int             `json:"choices"`
		ID      string            `json:"id"`
	} `json:"violation"`
}

var (
	doc       replayDoc
	loaded    bool
	names     = map[string]int{}
	choicePos int
	// Failed collects the ids of assertions that failed natively.
	Failed []string
	// Skipped is set when an assumption does not hold natively.
	Skipped bool
)

func load() {
	if loaded {
		return
	}
	loaded = true
	if p := os.Getenv("VERIF_REPLAY"); p != "" {
		if data, err := os.ReadFile(p); err == nil {
			_ = json.Unmarshal(data, &doc)
		}
	}
}

func fresh(base string) string {
	n := names[base]
	names[base] = n + 1
	if n == 0 {
		return base
	}
	return fmt.Sprintf("%s#%d", base, n)
}

func U64(name string) uint64 { load(); return doc.Violation.Model[fresh(name)] }
func U8(name string) uint8   { load(); return uint8(doc.Violation.Model[fresh(name)]) }
func I32(name string) int32  { load(); return int32(doc.Violation.Model[fresh(name)]) }
func Bool(name string) bool  { load(); return doc.Violation.Model[fresh(name)] != 0 }

func Choice(name string, n int) int {
	load()
	if n <= 1 {
		return 0
	}
	if choicePos < len(doc.Violation.Choices) {
		d := doc.Violation.Choices[choicePos]
		choicePos++
		return d
	}
	return 0
}

func Bytes(name string, n int) []byte {
	load()
	base := fresh(name)
	b := make([]byte, n)
	for i := range b {
		b[i] = byte(doc.Violation.Model[fmt.Sprintf("%s[%d]", base, i)])
	}
	return b
}

func SymString(name string, n int) string { return string(Bytes(name, n)) }

func And(c ...bool) bool {
	for _, x := range c {
		if !x {
			return false
		}
	}
	return true
}

func Or(c ...bool) bool {
	for _, x := range c {
		if x {
			return true
		}
	}
	return false
}

func Not(c bool) bool        { return !c }
func Implies(a, b bool) bool { return !a || b }
func IteU64(c bool, a, b uint64) uint64 {
	if c {
		return a
	}
	return b
}
func EqBytes(a, b []byte) bool { return string(a) == string(b) }
func EqStr(a, b string) bool   { return a == b }

func Assume(c bool) {
	if !c {
		Skipped = true
	}
}

func Assert(c bool, id string) {
	if !c && !Skipped {
		Failed = append(Failed, id)
	}
}

func Reach(label string)          {}
func Observe(label string, v any) {}
func Bound(name string, v int)    {}
func SetMapOrder(mode int)        {}
func SetPreemptionBound(n int)    {}

// SpawnRunsFirst(true): at every go statement executed under a preemption bound > 0 the engine
// also explores "the new goroutine runs first" without charging a preemption.
func SpawnRunsFirst(on bool)     {}
func Tier() int                  { return 0 }
func RaceMonitor(on bool)        {}
func Track(obj any, tag string)  {}
func JoinAll()                   {}
func Quiescent()                 {}
func Yield()                     {}
func Mutation(label string)      {}
func EnableCrash(on bool)        {}
func RunCrashable(f func()) bool { f(); return false }
func NumThreads() int            { return 1 }
func FreshUUID() string          { return "00000000-0000-4000-8000-000000000000" }
func Symbolic() bool             { return false }

// ScratchDir names a directory a harness may create a database in: a fixed name inside the
// engine's file-system model, a fresh temporary directory when replayed natively (nothing is
// ever written into the repository).
func ScratchDir() string {
	d, err := os.MkdirTemp("", "verif-native-")
	if err != nil {
		panic(err)
	}
	return d
}
func SetMode(name string, on bool) {}

// SymLen returns s with a symbolic length n (only len() observes it); natively s itself.
func SymLen[T any](s []T, n uint64) []T { return s }
