//go:build verif

package verifstack

import (
	"github.com/glebziz/fs_db"
	"github.com/glebziz/fs_db/internal/verifenv"
	nd "github.com/glebziz/fs_db/internal/verifnd"
)

// VerifH09c: the collector running at any moment of a snapshot read. An open snapshot
// transaction reads a key whose older versions the collector is removing at the same time; the
// read returns the snapshot's version under every interleaving up to the preemption bound, and
// the happens-before monitor watches the version list and its array mirror meanwhile (the
// collector shifts the array in place: a reader not excluded from it is a data race whatever
// the schedule shows).
func VerifH09c() {
	nd.RaceMonitor(true)
	P := 1
	if nd.Tier() == 1 {
		P = 2
	}
	nd.Bound("H09c.preemption_bound", P)
	concreteCounter = true
	w := newWorld(stdConfig(), []string{"a"})
	below := 1 + nd.Choice("versions-below-the-snapshot", 3)
	var snap []byte
	for i := 0; i < below; i++ {
		snap = w.freshVal()
		nd.Assert(w.doSet(0, "a", snap, 0) == nil, "H09c.pre")
	}
	t := w.begin(snapshotLevels[nd.Choice("level", 2)])
	for i := nd.Choice("later-writes", 3); i > 0; i-- {
		nd.Assert(w.doSet(0, "a", w.freshVal(), 0) == nil, "H09c.later")
	}
	readKeys := nd.Choice("reader-op", 2) == 1
	nd.SpawnRunsFirst(P == 1) // with two preemptions both shapes are within the bound anyway
	nd.SetPreemptionBound(P)
	go func() {
		w.gc("H09c")
	}()
	if readKeys {
		keys, err := w.txs[t].h.GetKeys(ctx)
		nd.Assert(err == nil && len(keys) == 1 && keys[0] == "a", "H09c.getkeys-during-collection")
	} else {
		got, err := w.txs[t].h.Get(ctx, "a")
		nd.Assert(err == nil, "H09c.get-found-during-collection")
		if err == nil {
			nd.Assert(nd.EqBytes(got, snap), "H09c.get-content-during-collection")
		}
	}
	nd.JoinAll()
	nd.SetPreemptionBound(0)
	w.checkReads("H09c.after")
	verifenv.RunJobs()
	w.checkReads("H09c.after-drain")
	nd.Reach("H09c.end")
}

// VerifH09d: the collector after a snapshot that began while a commit was in progress. A
// transaction overwrites key a (and optionally b) and commits while another goroutine begins a
// snapshot transaction; whichever side of the commit the snapshot fell on, a collector run
// afterwards changes none of its reads.
func VerifH09d() {
	P := 1
	if nd.Tier() == 1 {
		P = 2
	}
	nd.Bound("H09d.preemption_bound", P)
	concreteCounter = true
	keys := []string{"a", "b"}[:1+nd.Choice("keys", 2)]
	w := newWorld(stdConfig(), keys)
	for _, k := range keys {
		nd.Assert(w.doSet(0, k, w.freshVal(), 0) == nil, "H09d.pre")
	}
	t := w.begin(allLevels[nd.Choice("committer-level", 4)])
	for _, k := range keys {
		nd.Assert(w.doSet(t, k, w.freshVal(), 0) == nil, "H09d.tx-write")
	}
	var snap fs_db.Tx
	var berr error
	lv := snapshotLevels[nd.Choice("level", 2)]
	nd.SpawnRunsFirst(P == 1) // with two preemptions both shapes are within the bound anyway
	nd.SetPreemptionBound(P)
	go func() { snap, berr = w.d.Begin(ctx, lv) }()
	cerr := w.txs[t].h.Commit(ctx)
	nd.JoinAll()
	nd.SetPreemptionBound(0)
	nd.Assert(cerr == nil && berr == nil, "H09d.commit-and-begin-ok")
	type res struct {
		val []byte
		ok  bool
	}
	read := func(id string) []res {
		var out []res
		for _, k := range keys {
			b, err := snap.Get(ctx, k)
			nd.Assert(err == nil || isNotFound(err), id+".read-error-class")
			out = append(out, res{b, err == nil})
		}
		return out
	}
	before := read("H09d.before")
	for i := range keys {
		nd.Assert(before[i].ok, "H09d.key-with-a-value-throughout-is-found")
	}
	w.gc("H09d")
	verifenv.RunJobs()
	after := read("H09d.after")
	for i := range keys {
		nd.Assert(after[i].ok == before[i].ok, "H09d.collector-changed-a-snapshot-read")
		if after[i].ok && before[i].ok {
			nd.Assert(nd.EqBytes(after[i].val, before[i].val), "H09d.collector-changed-a-snapshot-read")
		}
	}
	nd.Reach("H09d.end")
}

// VerifH09e: a read that is under way when the collector runs. A reader obtained from GetReader
// (autocommit, or a transaction that has ended since) is still unread when the key is overwritten
// or deleted and the collector removes the superseded version with its content; reading it
// afterwards yields exactly the bytes the read was entitled to when it began (the content file is
// unlinked, never emptied under an open descriptor), or fails - it never returns other or fewer
// bytes with a clean end.
func VerifH09e() {
	nd.SetPreemptionBound(0)
	concreteCounter = true
	w := newWorld(stdConfig(), []string{"a"})
	w.vlen = []int{1, 2049}[nd.Choice("len", 2)]
	old := w.freshVal()
	nd.Assert(w.doSet(0, "a", old, 0) == nil, "H09e.pre")
	var st fs_db.Store = w.d
	viaTx := nd.Choice("reader-from-a-transaction", 2) == 1
	t := 0
	if viaTx {
		t = w.begin(snapshotLevels[nd.Choice("level", 2)])
		st = w.txs[t].h
	}
	r, err := st.GetReader(ctx, "a")
	nd.Assert(err == nil, "H09e.get-reader")
	if err != nil {
		return
	}
	if viaTx {
		w.rollback(t, "H09e")
	}
	if nd.Choice("superseded-by", 2) == 0 {
		nd.Assert(w.doSet(0, "a", w.freshVal(), 0) == nil, "H09e.overwrite")
	} else {
		nd.Assert(w.doDelete(0, "a") == nil, "H09e.delete")
	}
	w.gc("H09e")
	verifenv.RunJobs()
	got, rerr := readAll(r)
	if rerr == nil {
		nd.Assert(nd.EqBytes(got, old), "H09e.reader-held-across-a-collection-returns-other-bytes")
	}
	w.checkReads("H09e.after")
	nd.Reach("H09e.end")
}
