//go:build verif

package verifstack

import (
	"github.com/glebziz/fs_db/internal/verifenv"
	nd "github.com/glebziz/fs_db/internal/verifnd"
)

// VerifH09c: the collector running at any moment of a snapshot read. An open snapshot
// transaction reads a key whose older versions the collector is removing at the same time; the
// read returns the snapshot's version under every interleaving up to the preemption bound, and
// the happens-before monitor watches the version list and its array mirror meanwhile (the
// collector shifts the array in place: a reader not excluded from it is a data race whatever
// the schedule shows).
func VerifH09c() {
	nd.RaceMonitor(true)
	P := 1
	if nd.Tier() == 1 {
		P = 2
	}
	nd.Bound("H09c.preemption_bound", P)
	concreteCounter = true
	w := newWorld(stdConfig(), []string{"a"})
	below := 1 + nd.Choice("versions-below-the-snapshot", 3)
	var snap []byte
	for i := 0; i < below; i++ {
		snap = w.freshVal()
		nd.Assert(w.doSet(0, "a", snap, 0) == nil, "H09c.pre")
	}
	t := w.begin(snapshotLevels[nd.Choice("level", 2)])
	for i := nd.Choice("later-writes", 3); i > 0; i-- {
		nd.Assert(w.doSet(0, "a", w.freshVal(), 0) == nil, "H09c.later")
	}
	readKeys := nd.Choice("reader-op", 2) == 1
	nd.SetPreemptionBound(P)
	go func() {
		w.gc("H09c")
	}()
	if readKeys {
		keys, err := w.txs[t].h.GetKeys(ctx)
		nd.Assert(err == nil && len(keys) == 1 && keys[0] == "a", "H09c.getkeys-during-collection")
	} else {
		got, err := w.txs[t].h.Get(ctx, "a")
		nd.Assert(err == nil, "H09c.get-found-during-collection")
		if err == nil {
			nd.Assert(nd.EqBytes(got, snap), "H09c.get-content-during-collection")
		}
	}
	nd.JoinAll()
	nd.SetPreemptionBound(0)
	w.checkReads("H09c.after")
	verifenv.RunJobs()
	w.checkReads("H09c.after-drain")
	nd.Reach("H09c.end")
}
