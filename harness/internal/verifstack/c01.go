//go:build verif

package verifstack

import (
	"errors"

	"github.com/glebziz/fs_db"
	nd "github.com/glebziz/fs_db/internal/verifnd"
)

var c01Lens = []int{0, 1, 2049, 2047, 2048, 32767, 32768, 32769, 65537}

var c01Long bool

// VerifH01L: every boundary length (around the 2048-byte chunk and the 32 KiB copy buffer), two steps.
func VerifH01L() {
	c01Long = true
	VerifH01()
}

// VerifH01: autocommit round trips over the assembled stack; contents are symbolic bytes.
// Every step is followed by a full read-back, so histories shorter than the bound are covered
// as prefixes.
func VerifH01() {
	k, nl, nk := 3, 3, 2
	if nd.Tier() == 1 {
		// thorough: three keys with the short lengths over 3 steps, or (VerifH01L) every boundary
		// length over 2 steps
		k, nl, nk = 3, 3, 3
	}
	if c01Long {
		k, nl, nk = 2, len(c01Lens), 2
	}
	nd.Bound("H01.steps", k)
	nd.Bound("H01.lengths", nl)
	nd.Bound("H01.keys", nk)
	nd.SetPreemptionBound(0)
	w := newWorld(stdConfig(), []string{"a", " файл\n", "b"}[:nk]) // the second key has leading and trailing white space: keys are opaque
	// Create on the second key runs with the storing goroutine ahead of the writer (parked waiting
	// for data before every Write), on the other keys behind it (C12 explores the schedules between)
	w.storerAhead = map[string]bool{" файл\n": true}
	for i := 0; i < k; i++ {
		op := nd.Choice("op", nk+nk+1)
		switch {
		case op < nk: // Set / SetReader / Create+Write*+Close
			how := nd.Choice("how", 3)
			w.vlen = c01Lens[nd.Choice("len", nl)]
			err := w.doSet(0, w.keys[op], w.freshVal(), how)
			nd.Assert(err == nil, "H01.set-ok")
		case op < 2*nk:
			nd.Assert(w.doDelete(0, w.keys[op-nk]) == nil, "H01.delete-ok")
		default: // empty key and never-written key change nothing
			err := w.d.Set(ctx, "", []byte("x"))
			nd.Assert(errors.Is(err, fs_db.ErrEmptyKey), "H01.empty-key")
			_, err = w.d.Get(ctx, "never")
			nd.Assert(isNotFound(err), "H01.never-written")
			r, err := w.d.GetReader(ctx, "never")
			nd.Assert(isNotFound(err) && r == nil, "H01.never-written-reader")
		}
		w.checkReads("H01")
		// GetReader returns the same bytes
		for _, key := range w.keys {
			exp, ok := w.visible(0, key)
			r, err := w.d.GetReader(ctx, key)
			if !ok {
				nd.Assert(isNotFound(err), "H01.reader-notfound")
				continue
			}
			nd.Assert(err == nil, "H01.reader-ok")
			if err == nil {
				b, rerr := readAll(r)
				nd.Assert(rerr == nil, "H01.reader-read")
				nd.Assert(nd.EqBytes(b, exp.val), "H01.reader-content")
			}
		}
	}
	nd.Reach("H01.end")
}
