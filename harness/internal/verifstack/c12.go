//go:build verif

package verifstack

import (
	"errors"

	"github.com/glebziz/fs_db/internal/verifenv"
	nd "github.com/glebziz/fs_db/internal/verifnd"
)

var errCreateFails = errors.New("create fails")

// VerifH12b: Create through the real inline client: the storing goroutine is the real
// store.Set -> content.Store -> io.Copy, the writer splits the content into 0..2 writes
// (including empty ones); every interleaving up to the preemption bound. With a failing store
// Close (or a Write) reports the error and the key is unchanged.
func VerifH12b() {
	P := 2
	if nd.Tier() == 1 {
		P = 3
	}
	nd.Bound("H12b.preemption_bound", P)
	concreteCounter = true
	w := newWorld(stdConfig(), []string{"a"})
	if nd.Choice("pre-value", 2) == 1 {
		nd.Assert(w.doSet(0, "a", w.freshVal(), 0) == nil, "H12b.pre")
	}
	failing := nd.Choice("store-fails", 2) == 1
	if failing {
		verifenv.FS.OnCreate = func(p string) error { return errCreateFails }
	}
	nd.SetPreemptionBound(P)
	f, err := w.d.Create(ctx, "a")
	nd.Assert(err == nil, "H12b.create")
	m := nd.Choice("writes", 3)
	var all []byte
	var werr error
	for i := 0; i < m; i++ {
		p := nd.Bytes("w", nd.Choice("size", 2))
		all = append(all, p...)
		if _, e := f.Write(p); e != nil && werr == nil {
			werr = e
		}
	}
	cerr := f.Close()
	nd.SetPreemptionBound(0)
	verifenv.FS.OnCreate = nil
	if failing {
		nd.Assert(werr != nil || cerr != nil, "H12b.store-failure-reported")
		if cerr != nil {
			nd.Assert(errors.Is(cerr, errCreateFails), "H12b.store-failure-class")
		}
		nd.Reach("H12b.failure")
	} else {
		nd.Assert(werr == nil && cerr == nil, "H12b.ok")
		w.vs = append(w.vs, rver{key: "a", val: all, owner: 0, pos: w.tick()})
		nd.Reach("H12b.success")
	}
	w.checkReads("H12b")
	nd.Reach("H12b.end")
}

// h12Sizes: 0, 1 and the stream chunk size (2048) and its double +-1.
var h12Sizes = []int{0, 1, 2047, 2048, 2049, 4097}

// VerifH12c: Create through the real gRPC client over the loop-back transport: the content is
// split into 0..2 (thorough: 0..3) writes of sizes around the chunk size of the stream writer;
// Close returns nil and Get yields exactly the concatenation of all written (symbolic) bytes.
func VerifH12c() {
	nd.SetPreemptionBound(0)
	concreteCounter = true
	cfg := stdConfig()
	w := &world{cfg: cfg, keys: []string{"a"}, txs: []*rtx{nil}, vlen: 1}
	w.d, w.c, _ = openExternal(cfg)
	maxW := 2
	if nd.Tier() == 1 {
		maxW = 3
	}
	nd.Bound("H12c.max_writes", maxW)
	f, err := w.d.Create(ctx, "a")
	nd.Assert(err == nil, "H12c.create")
	m := nd.Choice("writes", maxW+1)
	var all []byte
	for i := 0; i < m; i++ {
		p := nd.Bytes("w", h12Sizes[nd.Choice("size", len(h12Sizes))])
		all = append(all, p...)
		n, werr := f.Write(p)
		nd.Assert(werr == nil && n == len(p), "H12c.write-ok")
	}
	nd.Assert(f.Close() == nil, "H12c.close-ok")
	got, gerr := w.d.Get(ctx, "a")
	nd.Assert(gerr == nil, "H12c.get-ok")
	nd.Assert(len(got) == len(all), "H12c.length-is-sum-of-writes")
	nd.Assert(nd.EqBytes(got, all), "H12c.content-is-concatenation-of-writes")
	nd.Reach("H12c.end")
}

// h12InlineSizes: 0, 1 and the copy buffer of the storing side (32 KiB) +-1.
var h12InlineSizes = []int{0, 1, 32767, 32768, 32769}

// VerifH12d: Create through the inline client with writes around the size of the storing side's
// copy buffer (io.Copy: 32 KiB): 0..2 writes, the storing goroutine scheduled at blocking points
// and with up to one (thorough: two) preemptions; Close returns nil and Get yields exactly the concatenation.
func VerifH12d() {
	P := 1
	if nd.Tier() == 1 {
		P = 2
	}
	nd.Bound("H12d.preemption_bound", P)
	concreteCounter = true
	w := newWorld(stdConfig(), []string{"a"})
	nd.SetPreemptionBound(P)
	f, err := w.d.Create(ctx, "a")
	nd.Assert(err == nil, "H12d.create")
	m := nd.Choice("writes", 3)
	var all []byte
	for i := 0; i < m; i++ {
		p := nd.Bytes("w", h12InlineSizes[nd.Choice("size", len(h12InlineSizes))])
		all = append(all, p...)
		n, werr := f.Write(p)
		nd.Assert(werr == nil && n == len(p), "H12d.write-ok")
	}
	nd.Assert(f.Close() == nil, "H12d.close-ok")
	nd.SetPreemptionBound(0)
	got, gerr := w.d.Get(ctx, "a")
	nd.Assert(gerr == nil, "H12d.get-ok")
	nd.Assert(len(got) == len(all), "H12d.length-is-sum-of-writes")
	nd.Assert(nd.EqBytes(got, all), "H12d.content-is-concatenation-of-writes")
	nd.Reach("H12d.end")
}
