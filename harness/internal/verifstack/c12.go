//go:build verif

package verifstack

import (
	"errors"

	"github.com/glebziz/fs_db/internal/verifenv"
	nd "github.com/glebziz/fs_db/internal/verifnd"
)

var errCreateFails = errors.New("create fails")

// VerifH12b: Create through the real inline client: the storing goroutine is the real
// store.Set -> content.Store -> io.Copy, the writer splits the content into 0..2 writes
// (including empty ones); every interleaving up to the preemption bound. With a failing store
// Close (or a Write) reports the error and the key is unchanged.
func VerifH12b() {
	P := 2
	if nd.Tier() == 1 {
		P = 3
	}
	nd.Bound("H12b.preemption_bound", P)
	concreteCounter = true
	w := newWorld(stdConfig(), []string{"a"})
	if nd.Choice("pre-value", 2) == 1 {
		nd.Assert(w.doSet(0, "a", w.freshVal(), 0) == nil, "H12b.pre")
	}
	failing := nd.Choice("store-fails", 2) == 1
	if failing {
		verifenv.FS.OnCreate = func(p string) error { return errCreateFails }
	}
	nd.SetPreemptionBound(P)
	f, err := w.d.Create(ctx, "a")
	nd.Assert(err == nil, "H12b.create")
	m := nd.Choice("writes", 3)
	var all []byte
	var werr error
	for i := 0; i < m; i++ {
		p := nd.Bytes("w", nd.Choice("size", 2))
		all = append(all, p...)
		if _, e := f.Write(p); e != nil && werr == nil {
			werr = e
		}
	}
	cerr := f.Close()
	nd.SetPreemptionBound(0)
	verifenv.FS.OnCreate = nil
	if failing {
		nd.Assert(werr != nil || cerr != nil, "H12b.store-failure-reported")
		if cerr != nil {
			nd.Assert(errors.Is(cerr, errCreateFails), "H12b.store-failure-class")
		}
		nd.Reach("H12b.failure")
	} else {
		nd.Assert(werr == nil && cerr == nil, "H12b.ok")
		w.vs = append(w.vs, rver{key: "a", val: all, owner: 0, pos: w.tick()})
		nd.Reach("H12b.success")
	}
	w.checkReads("H12b")
	nd.Reach("H12b.end")
}
