//go:build verif

package verifstack

import (
	"errors"

	"github.com/glebziz/fs_db"
	"github.com/glebziz/fs_db/internal/model"
	nd "github.com/glebziz/fs_db/internal/verifnd"
)

var snapshotLevels = []model.TxIsoLevel{fs_db.IsoLevelRepeatableRead, fs_db.IsoLevelSerializable}

// write patterns of the committers over keys a, b: which keys each transaction writes
var c07Patterns = [][][]string{
	{{"a"}, {"a"}},
	{{"a", "b"}, {"a"}},
	{{"a", "b"}, {"b", "a"}},
	{{"a"}, {"b"}}, // disjoint: both must succeed
}

// VerifH07: first committer wins. Two (thorough: three) snapshot transactions, all begun before
// any commits, write intersecting key sets and commit concurrently; every interleaving of the
// commit steps up to the preemption bound.
func VerifH07() {
	P := 1
	n := 2
	if nd.Tier() == 1 {
		P = 2
	}
	nd.Bound("H07.preemption_bound", P)
	concreteCounter = nd.Choice("counter", 2) == 0
	w := newWorld(stdConfig(), []string{"a", "b"})
	if nd.Choice("pre-value", 2) == 1 {
		nd.Assert(w.doSet(0, "a", w.freshVal(), 0) == nil, "H07.pre")
	}
	pat := c07Patterns[nd.Choice("pattern", len(c07Patterns))]
	var ts []int
	for i := 0; i < n; i++ {
		ts = append(ts, w.begin(snapshotLevels[nd.Choice("level", 2)]))
	}
	for i, t := range ts {
		for _, k := range pat[i] {
			nd.Assert(w.doSet(t, k, w.freshVal(), 0) == nil, "H07.tx-write")
		}
	}
	// an autocommit writer may interfere before the commits (then both must fail on that key)
	interfered := ""
	if nd.Choice("autocommit-interferes", 2) == 1 {
		interfered = "a"
		nd.Assert(w.doSet(0, "a", w.freshVal(), 0) == nil, "H07.interfere")
	}
	errs := make([]error, n)
	nd.SpawnRunsFirst(P == 1) // with two preemptions both shapes are within the bound anyway
	nd.SetPreemptionBound(P)
	for i := 1; i < n; i++ {
		i := i
		go func() { errs[i] = w.txs[ts[i]].h.Commit(ctx) }()
	}
	errs[0] = w.txs[ts[0]].h.Commit(ctx)
	nd.JoinAll()
	nd.SetPreemptionBound(0)
	// outcome classes
	ok := 0
	winner := -1
	for i := range errs {
		if errs[i] == nil {
			ok++
			winner = i
		} else {
			nd.Assert(errors.Is(errs[i], fs_db.ErrTxSerialization), "H07.loser-error-class")
		}
	}
	overlap := false
	for _, k1 := range pat[0] {
		for _, k2 := range pat[1] {
			if k1 == k2 {
				overlap = true
			}
		}
	}
	writesInterfered := func(i int) bool {
		for _, k := range pat[i] {
			if k == interfered {
				return true
			}
		}
		return false
	}
	if overlap {
		nd.Assert(ok <= 1, "H07.at-most-one-commit-succeeds")
		if interfered == "" {
			nd.Assert(ok == 1, "H07.first-committer-wins")
		}
	}
	for i := range errs {
		if writesInterfered(i) {
			nd.Assert(errs[i] != nil, "H07.conflict-with-autocommit-write")
		}
	}
	if !overlap && interfered == "" {
		nd.Assert(ok == n, "H07.disjoint-commits-succeed")
	}
	// the committed state: exactly the successful transactions' last writes, nothing of a loser
	var rest []rver
	for _, v := range w.vs {
		if v.owner == 0 {
			rest = append(rest, v)
		}
	}
	for i, t := range ts {
		if errs[i] == nil {
			for _, v := range w.vs {
				if v.owner == t {
					v.owner = 0
					v.pos = w.tick()
					rest = append(rest, v)
				}
			}
		}
		w.txs[t].open = false
	}
	w.vs = rest
	_ = winner
	w.checkReads("H07.final")
	// and durably
	w.reopen("H07")
	w.checkReads("H07.after-reopen")
	nd.Reach("H07.end")
}

// VerifH07b: the loser's Commit cannot be turned into a success by repeating it. A and B write
// the same key, A commits first; B's Commit is then issued twice at once (a client retry, a
// duplicated request). Whatever the interleaving, no Commit of B reports success, each fails
// with ErrTxSerialization or - for the call that finds the transaction already gone -
// ErrTxNotFound, and A's value stays.
func VerifH07b() {
	P := 1
	if nd.Tier() == 1 {
		P = 2
	}
	nd.Bound("H07b.preemption_bound", P)
	concreteCounter = true
	w := newWorld(stdConfig(), []string{"a", "b"})
	a := w.begin(snapshotLevels[nd.Choice("level", 2)])
	b := w.begin(snapshotLevels[nd.Choice("level", 2)])
	nd.Assert(w.doSet(a, "a", w.freshVal(), 0) == nil, "H07b.tx-write")
	nd.Assert(w.doSet(b, "a", w.freshVal(), 0) == nil, "H07b.tx-write")
	if nd.Choice("loser-writes-b-too", 2) == 1 {
		nd.Assert(w.doSet(b, "b", w.freshVal(), 0) == nil, "H07b.tx-write")
	}
	w.commit(a, "H07b.first-committer")
	errs := make([]error, 2)
	nd.SpawnRunsFirst(P == 1) // with two preemptions both shapes are within the bound anyway
	nd.SetPreemptionBound(P)
	go func() { errs[1] = w.txs[b].h.Commit(ctx) }()
	errs[0] = w.txs[b].h.Commit(ctx)
	nd.JoinAll()
	nd.SetPreemptionBound(0)
	serial := 0
	for _, err := range errs {
		nd.Assert(err != nil, "H07b.repeated-commit-of-loser-succeeds")
		if errors.Is(err, fs_db.ErrTxSerialization) {
			serial++
		} else {
			nd.Assert(errors.Is(err, fs_db.ErrTxNotFound), "H07b.loser-error-class")
		}
	}
	nd.Assert(serial >= 1, "H07b.loser-told-serialization")
	// none of the loser's writes is visible
	var rest []rver
	for _, v := range w.vs {
		if v.owner != b {
			rest = append(rest, v)
		}
	}
	w.vs = rest
	w.txs[b].open = false
	w.checkReads("H07b.final")
	nd.Reach("H07b.end")
}

// VerifH07c: an autocommit write of the contested key is in flight while the second transaction
// begins and the first commits. T1 has written a; W (another goroutine) writes a outside any
// transaction; meanwhile T2 begins, T1 commits, and - after W has finished - T2 writes a and
// commits. T2 began before T1's commit, so whatever W and T1 did to each other, T1 and T2 cannot
// both succeed.
func VerifH07c() {
	P := 1
	if nd.Tier() == 1 {
		P = 2
	}
	nd.Bound("H07c.preemption_bound", P)
	concreteCounter = true
	w := newWorld(stdConfig(), []string{"a"})
	if nd.Choice("pre-value", 2) == 1 {
		nd.Assert(w.doSet(0, "a", w.freshVal(), 0) == nil, "H07c.pre")
	}
	t1 := w.begin(snapshotLevels[nd.Choice("level", 2)])
	nd.Assert(w.doSet(t1, "a", w.freshVal(), 0) == nil, "H07c.tx-write")
	wv := w.freshVal()
	var werr, berr, err1 error
	var h2 fs_db.Tx
	lv2 := snapshotLevels[nd.Choice("level", 2)]
	writer := func() { werr = w.d.Set(ctx, "a", wv) }
	txs := func() {
		h2, berr = w.d.Begin(ctx, lv2)
		err1 = w.txs[t1].h.Commit(ctx)
	}
	// either side runs in the spawned goroutine (so that one preemption can stop either of them
	// half-way while the other runs to completion)
	nd.SpawnRunsFirst(P == 1) // with two preemptions both shapes are within the bound anyway
	nd.SetPreemptionBound(P)
	if nd.Choice("spawned-side", 2) == 0 {
		go writer()
		txs()
	} else {
		go txs()
		writer()
	}
	nd.JoinAll()
	nd.SetPreemptionBound(0)
	nd.Assert(berr == nil, "H07c.begin")
	nd.Assert(werr == nil, "H07c.autocommit-write-ok")
	v2 := w.freshVal()
	nd.Assert(h2.Set(ctx, "a", v2) == nil, "H07c.tx2-write")
	err2 := h2.Commit(ctx)
	if err1 != nil {
		nd.Assert(errors.Is(err1, fs_db.ErrTxSerialization), "H07c.loser-error-class")
	}
	if err2 != nil {
		nd.Assert(errors.Is(err2, fs_db.ErrTxSerialization), "H07c.loser-error-class")
	}
	nd.Assert(err1 != nil || err2 != nil, "H07c.both-commits-succeed-around-an-inflight-autocommit-write")
	// (T2 alone may well succeed: when W ran to completion before T2 began and T1 lost against W)
	nd.Reach("H07c.end")
}

// VerifH07d: a snapshot transaction that begins while another one is committing. T1 has written a
// and commits in its own goroutine; meanwhile T2 begins and reads a. If T2 still read the value
// from before T1's commit, its snapshot precedes that commit: once T1 has succeeded, T2's own
// write of a must fail at Commit with ErrTxSerialization (first committer wins) - wherever inside
// T1's commit T2's Begin fell.
func VerifH07d() {
	P := 1
	if nd.Tier() == 1 {
		P = 2
	}
	nd.Bound("H07d.preemption_bound", P)
	concreteCounter = true
	w := newWorld(stdConfig(), []string{"a", "b"})
	old := w.freshVal()
	nd.Assert(w.doSet(0, "a", old, 0) == nil, "H07d.pre")
	t1 := w.begin(snapshotLevels[nd.Choice("level", 2)])
	v1 := w.freshVal()
	nd.Assert(w.doSet(t1, "a", v1, 0) == nil, "H07d.tx-write")
	if nd.Choice("t1-writes-b-too", 2) == 1 {
		nd.Assert(w.doSet(t1, "b", w.freshVal(), 0) == nil, "H07d.tx-write")
	}
	lv2 := snapshotLevels[nd.Choice("level", 2)]
	var err1 error
	nd.SpawnRunsFirst(P == 1)
	nd.SetPreemptionBound(P)
	go func() { err1 = w.txs[t1].h.Commit(ctx) }()
	h2, berr := w.d.Begin(ctx, lv2)
	nd.Assert(berr == nil, "H07d.begin")
	got, gerr := h2.Get(ctx, "a")
	nd.JoinAll()
	nd.SetPreemptionBound(0)
	nd.Assert(err1 == nil, "H07d.first-commit-ok")
	nd.Assert(gerr == nil, "H07d.snapshot-read-found")
	if gerr != nil {
		return
	}
	nd.Assume(!nd.EqBytes(old, v1))
	sawOld := nd.EqBytes(got, old)
	nd.Assert(nd.Or(sawOld, nd.EqBytes(got, v1)), "H07d.snapshot-read-is-a-committed-value")
	nd.Assert(h2.Set(ctx, "a", w.freshVal()) == nil, "H07d.tx2-write")
	err2 := h2.Commit(ctx)
	if err2 != nil {
		nd.Assert(errors.Is(err2, fs_db.ErrTxSerialization), "H07d.loser-error-class")
	}
	nd.Assert(nd.Implies(sawOld, err2 != nil), "H07d.commit-over-a-commit-the-snapshot-did-not-see")
	nd.Reach("H07d.end")
}
