//go:build verif

package verifstack

import (
	"sort"
	"strings"

	"github.com/glebziz/fs_db"
	"github.com/glebziz/fs_db/internal/verifenv"
	nd "github.com/glebziz/fs_db/internal/verifnd"
)

// One recorded operation of the concurrent phase.
type lop struct {
	kind int // 0 Set 1 Delete 2 Get 3 GetKeys 4 tx.Set 5 tx.Commit 6 tx.Get 7 GC(+physical deletion)
	key  string
	val  []byte
	// observation
	call, ret int
	found     bool
	got       []byte
	keys      []string
	failed    bool
	errText   string
}

var lopNames = []string{"Set", "Delete", "Get", "GetKeys", "tx.Set", "tx.Commit", "tx.Get", "GC"}

// sequential specification used by the linearizability check: committed map + one RC/RU
// transaction's uncommitted writes (last write per key)
type lmodel struct {
	keys    []string
	clock   int
	cPos    []int // recency of the last committed write/delete of the key
	txPos   []int
	has     []bool
	val     [][]byte
	txHas   []bool // the transaction wrote the key
	txDel   []bool
	txVal   [][]byte
	txLevel int // 0 RU, 1 RC
	txDone  bool
}

func (m *lmodel) clone() *lmodel {
	c := *m
	c.cPos = append([]int{}, m.cPos...)
	c.txPos = append([]int{}, m.txPos...)
	c.has = append([]bool{}, m.has...)
	c.val = append([][]byte{}, m.val...)
	c.txHas = append([]bool{}, m.txHas...)
	c.txDel = append([]bool{}, m.txDel...)
	c.txVal = append([][]byte{}, m.txVal...)
	return &c
}

func (m *lmodel) idx(k string) int {
	for i, x := range m.keys {
		if x == k {
			return i
		}
	}
	return -1
}

// apply runs op on the model and returns whether the observed result matches (a symbolic bool).
func (m *lmodel) apply(o *lop) bool {
	i := m.idx(o.key)
	m.clock++
	switch o.kind {
	case 0:
		m.has[i], m.val[i], m.cPos[i] = true, o.val, m.clock
		return !o.failed
	case 1:
		m.has[i], m.cPos[i] = false, m.clock
		return !o.failed
	case 2: // autocommit read: ReadCommitted, no own writes
		if !m.has[i] {
			return !o.found && !o.failed
		}
		return o.found && nd.EqBytes(o.got, m.val[i])
	case 3:
		var want []string
		for j, k := range m.keys {
			if m.has[j] {
				want = append(want, k)
			}
		}
		sort.Strings(want)
		if o.failed || len(want) != len(o.keys) {
			return false
		}
		for j := range want {
			if want[j] != o.keys[j] {
				return false
			}
		}
		return true
	case 4:
		m.txHas[i], m.txDel[i], m.txVal[i], m.txPos[i] = true, false, o.val, m.clock
		return !o.failed
	case 5:
		for j := range m.keys {
			if m.txHas[j] {
				m.has[j], m.val[j], m.cPos[j] = !m.txDel[j], m.txVal[j], m.clock
				m.txHas[j] = false
			}
		}
		m.txDone = true
		return !o.failed
	case 6: // read inside the RC transaction: the more recent of own last write and committed value
		if m.txHas[i] && m.txPos[i] > m.cPos[i] {
			if m.txDel[i] {
				return !o.found
			}
			return o.found && nd.EqBytes(o.got, m.txVal[i])
		}
		if !m.has[i] {
			return !o.found && !o.failed
		}
		return o.found && nd.EqBytes(o.got, m.val[i])
	default:
		return !o.failed // GC changes nothing observable
	}
}

// linearizable: some total order of ops consistent with real-time precedence explains every result.
func linearizable(m *lmodel, ops []*lop) bool {
	return linRec(m, ops, make([]bool, len(ops)), len(ops))
}

func linRec(m *lmodel, ops []*lop, used []bool, left int) bool {
	if left == 0 {
		return true
	}
	res := false
	for i, o := range ops {
		if used[i] {
			continue
		}
		// o may come next only if no other pending op returned before o was called
		okFirst := true
		for j, p := range ops {
			if !used[j] && j != i && p.ret < o.call {
				okFirst = false
			}
		}
		if !okFirst {
			continue
		}
		c := m.clone()
		match := c.apply(o)
		used[i] = true
		rest := linRec(c, ops, used, left-1)
		used[i] = false
		res = nd.Or(res, nd.And(match, rest))
	}
	return res
}

// VerifH06: concurrent operations are individually atomic; no deadlock, no panic; also while
// the collector and the physical cleanup run.
func VerifH06() {
	P := 1
	nA, nB := 2, 1
	if nd.Tier() == 1 {
		P = 2 // two preemptions (the alphabets stay those of the quick tier: schedule depth matters more)
	}
	nd.Bound("H06.preemption_bound", P)
	nd.Bound("H06.ops_thread_A", nA)
	nd.Bound("H06.ops_thread_B", nB)
	concreteCounter = true
	w := newWorld(stdConfig(), []string{"a", "b"})
	// sequential prefix: key a has a value (so "a key that has a value throughout" is exercised),
	// optionally an older version to collect, optionally an open ReadCommitted transaction
	nd.Assert(w.doSet(0, "a", w.freshVal(), 0) == nil, "H06.pre")
	if nd.Choice("older-version", 2) == 1 {
		nd.Assert(w.doSet(0, "a", w.freshVal(), 0) == nil, "H06.pre")
	}
	var tx fs_db.Tx
	haveTx := nd.Choice("open-tx", 2) == 1
	if haveTx {
		t := w.begin(fs_db.IsoLevelReadCommitted)
		tx = w.txs[t].h
	}
	m := &lmodel{keys: w.keys, cPos: make([]int, 2), txPos: make([]int, 2), has: make([]bool, 2), val: make([][]byte, 2), txHas: make([]bool, 2), txDel: make([]bool, 2), txVal: make([][]byte, 2), txLevel: 1}
	for i, k := range w.keys {
		if v, ok := w.visible(0, k); ok {
			m.has[i], m.val[i] = true, v.val
		}
	}
	clock := 0
	var ops []*lop
	pick := func(who string, allowTx bool) *lop {
		n := 4
		if allowTx {
			n = 7
		}
		kind := []int{0, 1, 2, 3, 4, 5, 6}[nd.Choice(who+"-op", n)]
		o := &lop{kind: kind, key: "a"}
		if kind == 0 || kind == 4 {
			o.val = w.freshVal()
			if kind == 0 && nd.Choice(who+"-key", 2) == 1 {
				o.key = "b"
			}
		}
		return o
	}
	run := func(o *lop) {
		clock++
		o.call = clock
		switch o.kind {
		case 0:
			o.failed = w.d.Set(ctx, o.key, o.val) != nil
		case 1:
			o.failed = w.d.Delete(ctx, o.key) != nil
		case 2, 6:
			var b []byte
			var err error
			if o.kind == 2 {
				b, err = w.d.Get(ctx, o.key)
			} else {
				b, err = tx.Get(ctx, o.key)
			}
			if err == nil {
				o.found, o.got = true, b
			} else {
				o.failed = !isNotFound(err)
				o.errText = err.Error()
			}
		case 3:
			ks, err := w.d.GetKeys(ctx)
			o.keys, o.failed = ks, err != nil
		case 4:
			o.failed = tx.Set(ctx, o.key, o.val) != nil
		case 5:
			o.failed = tx.Commit(ctx) != nil
		case 7:
			o.failed = w.c.Cleaner().DeleteOld(ctx) != nil
			verifenv.RunJobs()
		}
		clock++
		o.ret = clock
	}
	// thread A owns the transaction (a transaction is used by one goroutine at a time)
	var opsA, opsB []*lop
	committed := false
	for i := 0; i < nA; i++ {
		var o *lop
		if i == nA-1 {
			// the last operation of A is a read of key a (through the transaction if it is still open)
			o = &lop{kind: 2, key: "a"}
			if haveTx && !committed {
				o.kind = 6
			}
		} else {
			o = pick("A", haveTx && !committed)
		}
		if o.kind == 5 {
			committed = true
		}
		opsA = append(opsA, o)
	}
	for i := 0; i < nB; i++ {
		if true {
			// B writes (set a, set b, delete a)
			o := &lop{kind: 0, key: "a"}
			switch nd.Choice("B-op", 3) {
			case 0:
				o.val = w.freshVal()
			case 1:
				o.key, o.val = "b", w.freshVal()
			default:
				o.kind = 1
			}
			opsB = append(opsB, o)
		} else {
			opsB = append(opsB, pick("B", false))
		}
	}
	ops = append(append(ops, opsA...), opsB...)
	// the garbage-collection actor: logical collection and physical deletion, concurrently
	var gcOp *lop
	if nd.Choice("gc-actor", 2) == 1 {
		gcOp = &lop{kind: 7, key: "a"}
		ops = append(ops, gcOp)
	}
	nd.SpawnRunsFirst(P == 1) // with two preemptions both shapes are within the bound anyway
	nd.SetPreemptionBound(P)
	go func() {
		for _, o := range opsB {
			run(o)
		}
	}()
	if gcOp != nil {
		go func() { run(gcOp) }()
	}
	for _, o := range opsA {
		run(o)
	}
	nd.JoinAll()
	nd.SetPreemptionBound(0)
	for _, o := range ops {
		nd.Assert(!o.failed, "H06."+lopNames[o.kind]+"-failed")
	}
	// the statement's own example first, with the place the spurious not-found comes from: a key
	// that has a value throughout a read is never reported missing
	deletes := false
	for _, o := range ops {
		if o.kind == 1 && o.key == "a" {
			deletes = true
		}
	}
	if !deletes && m.has[0] {
		for _, o := range ops {
			if (o.kind == 2 || o.kind == 6) && o.key == "a" && !o.found && !o.failed {
				where := "version-lookup"
				if strings.Contains(o.errText, "content file repository get") {
					where = "content-record-lookup-after-locks-released"
				} else if strings.Contains(o.errText, "content repository get") {
					where = "content-open-after-locks-released"
				}
				nd.Assert(false, "H06.present-key-read-as-missing:"+where)
			}
			if o.kind == 3 && !o.failed {
				listed := false
				for _, k := range o.keys {
					if k == "a" {
						listed = true
					}
				}
				// GetKeys treats a content record that vanished after the version lookup as a tombstone
				nd.Assert(listed, "H06.present-key-missing-from-GetKeys:content-record-lookup-after-locks-released")
			}
		}
	}
	nd.Assert(linearizable(m, ops), "H06.history-is-linearizable")
	// quiescence: the final state equals the state after some linearization; re-read sequentially
	final := &lop{kind: 2, key: "a"}
	run(final)
	finalKeys := &lop{kind: 3}
	run(finalKeys)
	nd.Assert(linearizable(m, append(append([]*lop{}, ops...), final, finalKeys)), "H06.final-state-is-linearizable")
	// the order in which concurrent writes took effect is also the order that survives a reopen:
	// after Close and Open every key reads as it did before
	finalB := &lop{kind: 2, key: "b"}
	run(finalB)
	if haveTx && !committed {
		_ = tx.Rollback(ctx)
	}
	w.reopen("H06")
	for _, pre := range []*lop{final, finalB} {
		b, err := w.d.Get(ctx, pre.key)
		if pre.found {
			nd.Assert(err == nil, "H06.value-lost-by-reopen-after-concurrent-writes")
			if err == nil {
				nd.Assert(nd.EqBytes(b, pre.got), "H06.reopen-changes-the-winner-of-concurrent-writes")
			}
		} else {
			nd.Assert(isNotFound(err), "H06.value-resurrected-by-reopen-after-concurrent-writes")
		}
	}
	nd.Reach("H06.end")
}

// VerifH06b: concurrent reads through the gRPC server. Two goroutines read two different keys
// (values of 1 byte or of more than one chunk) through the external client at the same time: each
// gets its own key's content, and the happens-before monitor watches the server side (state shared
// between concurrent request handlers).
func VerifH06b() {
	nd.RaceMonitor(true)
	P := 1
	if nd.Tier() == 1 {
		P = 2
	}
	nd.Bound("H06b.preemption_bound", P)
	concreteCounter = true
	cfg := stdConfig()
	w := &world{cfg: cfg, keys: []string{"a", "b"}, txs: []*rtx{nil}, vlen: 1}
	w.d, w.c, _ = openExternal(cfg)
	w.vlen = []int{1, 2049}[nd.Choice("len", 2)]
	va, vb := w.freshVal(), w.freshVal()
	nd.Assert(w.d.Set(ctx, "a", va) == nil && w.d.Set(ctx, "b", vb) == nil, "H06b.pre")
	var gb []byte
	var eb error
	nd.SpawnRunsFirst(P == 1)
	nd.SetPreemptionBound(P)
	go func() { gb, eb = w.d.Get(ctx, "b") }()
	ga, ea := w.d.Get(ctx, "a")
	nd.JoinAll()
	nd.SetPreemptionBound(0)
	nd.Assert(ea == nil && eb == nil, "H06b.reads-ok")
	if ea == nil && eb == nil {
		nd.Assert(nd.EqBytes(ga, va), "H06b.key-read-with-its-own-content")
		nd.Assert(nd.EqBytes(gb, vb), "H06b.key-read-with-its-own-content")
	}
	nd.Reach("H06b.end")
}
