//go:build verif

// Package verifstack holds the assembled-stack (F2) harnesses: the real inline client, DI
// container, use cases and repositories over the environment models of verifenv.
package verifstack

import (
	"context"
	"errors"
	"io"
	"time"

	"github.com/glebziz/fs_db"
	"github.com/glebziz/fs_db/config"
	"github.com/glebziz/fs_db/internal/di"
	"github.com/glebziz/fs_db/internal/verifenv"
	nd "github.com/glebziz/fs_db/internal/verifnd"
	"github.com/glebziz/fs_db/pkg/inline"
	inlinedb "github.com/glebziz/fs_db/pkg/inline/db"
)

var ctx = context.Background()

func stdConfig(roots ...string) config.Config {
	if len(roots) == 0 {
		roots = []string{"r1"}
	}
	return config.Config{
		Storage: config.Storage{DbPath: "db", MaxDirCount: 100, RootDirs: roots, GCPeriod: time.Minute},
		WPool:   config.WPool{NumWorkers: 1, SendDuration: time.Millisecond},
	}
}

// openSeq opens the real inline database with the worker pool replaced by the sequential queue.
func openSeq(cfg config.Config) (fs_db.DB, *di.Container) {
	nd.SetMode("seqpool", true)
	d, err := inline.Open(ctx, cfg)
	nd.Assert(err == nil, "stack.open")
	if err != nil {
		nd.Assume(false)
	}
	return d, inlinedb.VerifContainer(d)
}

func isNotFound(err error) bool { return errors.Is(err, fs_db.ErrNotFound) }

// readAll drains a reader obtained from GetReader.
func readAll(r io.ReadCloser) ([]byte, error) {
	defer r.Close()
	return io.ReadAll(r)
}

var _ = verifenv.RunJobs

// VerifSmoke: one round trip through the whole stack.
func VerifSmoke() {
	d, _ := openSeq(stdConfig())
	val := nd.Bytes("v", 3)
	err := d.Set(ctx, "a", val)
	nd.Assert(err == nil, "smoke.set")
	got, err := d.Get(ctx, "a")
	nd.Assert(err == nil, "smoke.get")
	nd.Assert(nd.EqBytes(got, val), "smoke.roundtrip")
	_, err = d.Get(ctx, "b")
	nd.Assert(isNotFound(err), "smoke.missing")
	keys, err := d.GetKeys(ctx)
	nd.Assert(err == nil && len(keys) == 1 && keys[0] == "a", "smoke.keys")
	nd.Assert(d.Close() == nil, "smoke.close")
	nd.Reach("smoke.end")
}

func VerifDebug() {
	d, _ := openSeq(stdConfig())
	val := nd.Bytes("v", 3)
	err := d.Set(ctx, "a", val)
	nd.Assert(err == nil, "smoke.set")
	_, err = d.Get(ctx, "a")
	if err != nil {
		nd.Observe("err", err.Error())
	}
	nd.Observe("files", verifenv.FS.Files("r1"))
	nd.Observe("kv", verifenv.KV.Store("db").Keys(""))
	nd.Assert(err == nil, "dbg.get")
}
