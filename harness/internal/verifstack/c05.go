//go:build verif

package verifstack

import (
	nd "github.com/glebziz/fs_db/internal/verifnd"
)

// VerifH05c: the first writers of a database. On a freshly opened database that holds nothing
// committed (new, or optionally with leftovers of a transaction that never committed), two
// goroutines make the first writes at the same time (autocommit writes of different or the same
// key, or the commits of two transactions); every acknowledged write is readable at once, and
// after Close/Open everything reads as it did before.
func VerifH05c() {
	P := 1
	if nd.Tier() == 1 {
		P = 2
	}
	nd.Bound("H05c.preemption_bound", P)
	concreteCounter = true
	w := newWorld(stdConfig(), []string{"a", "b"})
	if nd.Choice("uncommitted-leftovers", 2) == 1 {
		t := w.begin(allLevels[1])
		nd.Assert(w.doSet(t, "a", w.freshVal(), 0) == nil, "H05c.leftover")
		nd.Assert(w.d.Close() == nil, "H05c.close0")
		w.txs[t].open = false
		w.vs = nil
		newProcess()
		w.d, w.c = openSeq(w.cfg)
	}
	sameKey := nd.Choice("same-key", 2) == 1
	viaTx := nd.Choice("through-transactions", 2) == 1
	k2 := "b"
	if sameKey {
		k2 = "a"
	}
	v1, v2 := w.freshVal(), w.freshVal()
	var e1, e2 error
	write := func(key string, val []byte) error {
		if !viaTx {
			return w.d.Set(ctx, key, val)
		}
		tx, err := w.d.Begin(ctx, allLevels[1])
		if err != nil {
			return err
		}
		if err := tx.Set(ctx, key, val); err != nil {
			return err
		}
		return tx.Commit(ctx)
	}
	nd.SpawnRunsFirst(P == 1)
	nd.SetPreemptionBound(P)
	go func() { e2 = write(k2, v2) }()
	e1 = write("a", v1)
	nd.JoinAll()
	nd.SetPreemptionBound(0)
	nd.Assert(e1 == nil && e2 == nil, "H05c.first-writes-acknowledged")
	f1, vals1 := w.readState("H05c.before-close")
	nd.Assert(f1[0], "H05c.acknowledged-first-write-is-readable")
	if !sameKey {
		nd.Assert(f1[1], "H05c.acknowledged-first-write-is-readable")
		nd.Assert(nd.EqBytes(vals1[0], v1) && nd.EqBytes(vals1[1], v2), "H05c.acknowledged-first-write-content")
	} else {
		nd.Assert(nd.Or(nd.EqBytes(vals1[0], v1), nd.EqBytes(vals1[0], v2)), "H05c.acknowledged-first-write-content")
	}
	nd.Assert(w.d.Close() == nil, "H05c.close")
	newProcess()
	w.d, w.c = openSeq(w.cfg)
	f2, vals2 := w.readState("H05c.reopened")
	nd.Assert(sameState(f1, vals1, f2, vals2), "H05c.reopen-preserves-the-first-writes")
	nd.Reach("H05c.end")
}

// VerifH05d: a commit of several keys, then a restart. A transaction writes two or three keys
// (among them a non-ASCII one) and commits; an autocommit write follows; after Close/Open (same or
// new process) every key reads as it did before, and again after a second restart.
func VerifH05d() {
	nd.SetPreemptionBound(0)
	w := newWorld(stdConfig(), []string{"a", "b", "ключ"})
	w.mixAPIs = true
	nd.Assert(w.doSet(0, "a", w.freshVal(), 0) == nil, "H05d.pre")
	t := w.begin(allLevels[nd.Choice("level", 4)])
	nk := 2 + nd.Choice("keys", 2)
	for _, k := range w.keys[:nk] {
		nd.Assert(w.doSet(t, k, w.freshVal(), w.howFor(t, k)) == nil, "H05d.tx-write")
	}
	w.commit(t, "H05d")
	if nd.Choice("autocommit-after", 2) == 1 {
		nd.Assert(w.doSet(0, "b", w.freshVal(), 0) == nil, "H05d.later-write")
	}
	w.checkReads("H05d.before-close")
	w.reopen("H05d")
	w.checkReads("H05d.after-reopen")
	w.reopen("H05d")
	w.checkReads("H05d.after-second-reopen")
	nd.Reach("H05d.end")
}
