//go:build verif

package verifstack

import (
	"github.com/glebziz/fs_db"
	"github.com/glebziz/fs_db/internal/verifenv"
	nd "github.com/glebziz/fs_db/internal/verifnd"
)

func c08P() int {
	if nd.Tier() == 1 {
		return 3
	}
	return 2
}

type readRes struct {
	found bool
	val   []byte
	err   error
}

func txRead(h fs_db.Tx, key string) readRes {
	b, err := h.Get(ctx, key)
	if err == nil {
		return readRes{found: true, val: b}
	}
	return readRes{err: err}
}

func sameRead(x, y readRes) bool {
	if x.found != y.found {
		return false
	}
	if !x.found {
		return true
	}
	return nd.EqBytes(x.val, y.val)
}

// VerifH08a: Begin racing with a multi-key Commit: the snapshot reader sees all of the commit's
// writes or none, and re-reading gives the same.
func VerifH08a() {
	P := c08P()
	nd.Bound("H08a.preemption_bound", P)
	concreteCounter = true
	w := newWorld(stdConfig(), []string{"a", "b"})
	oldA, oldB := w.freshVal(), w.freshVal()
	nd.Assert(w.doSet(0, "a", oldA, 0) == nil && w.doSet(0, "b", oldB, 0) == nil, "H08a.pre")
	t := w.begin(allLevels[nd.Choice("committer-level", 4)])
	newA, newB := w.freshVal(), w.freshVal()
	nd.Assert(w.doSet(t, "a", newA, 0) == nil && w.doSet(t, "b", newB, 0) == nil, "H08a.tx-writes")
	level := snapshotLevels[nd.Choice("reader-level", 2)]
	var cerr error
	nd.SetPreemptionBound(P)
	go func() { cerr = w.txs[t].h.Commit(ctx) }()
	r, berr := w.d.Begin(ctx, level)
	nd.Assert(berr == nil, "H08a.begin")
	a1, b1 := txRead(r, "a"), txRead(r, "b")
	a2, b2 := txRead(r, "a"), txRead(r, "b")
	nd.JoinAll()
	a3, b3 := txRead(r, "a"), txRead(r, "b")
	nd.SetPreemptionBound(0)
	nd.Assert(cerr == nil, "H08a.commit-ok")
	nd.Assert(a1.found && b1.found, "H08a.reads-found")
	if !(a1.found && b1.found) {
		return
	}
	allOld := nd.And(nd.EqBytes(a1.val, oldA), nd.EqBytes(b1.val, oldB))
	allNew := nd.And(nd.EqBytes(a1.val, newA), nd.EqBytes(b1.val, newB))
	// the four contents are distinct symbolic bytes only if the solver may not equate them
	nd.Assume(nd.And(!nd.EqBytes(oldA, newA), !nd.EqBytes(oldB, newB)))
	nd.Assert(nd.Or(allOld, allNew), "H08a.snapshot-sees-all-or-nothing-of-a-commit")
	nd.Assert(nd.And(sameRead(a1, a2), sameRead(b1, b2), sameRead(a1, a3), sameRead(b1, b3)), "H08a.repeatable-read")
	nd.Reach("H08a.end")
}

// VerifH08b: Begin racing with an autocommit overwrite and the garbage collector (logical and
// physical phase): the reader's value is one that was committed while Begin ran, and it is stable.
func VerifH08b() {
	P := c08P()
	nd.Bound("H08b.preemption_bound", P)
	concreteCounter = true
	w := newWorld(stdConfig(), []string{"a"})
	old := w.freshVal()
	nd.Assert(w.doSet(0, "a", old, 0) == nil, "H08b.pre")
	nv := w.freshVal()
	level := snapshotLevels[nd.Choice("reader-level", 2)]
	nd.SetPreemptionBound(P)
	go func() {
		_ = w.d.Set(ctx, "a", nv)
		_ = w.c.Cleaner().DeleteOld(ctx)
		verifenv.RunJobs()
	}()
	r, berr := w.d.Begin(ctx, level)
	nd.Assert(berr == nil, "H08b.begin")
	r1 := txRead(r, "a")
	nd.JoinAll()
	r2 := txRead(r, "a")
	// a later collection must not disturb the open snapshot either
	_ = w.c.Cleaner().DeleteOld(ctx)
	verifenv.RunJobs()
	r3 := txRead(r, "a")
	nd.SetPreemptionBound(0)
	nd.Assert(r1.found, "H08b.value-present-throughout-is-found")
	nd.Assert(r2.found && r3.found, "H08b.value-still-found-later")
	if r1.found && r2.found && r3.found {
		nd.Assert(nd.Or(nd.EqBytes(r1.val, old), nd.EqBytes(r1.val, nv)), "H08b.value-is-a-committed-one")
		nd.Assert(nd.And(sameRead(r1, r2), sameRead(r1, r3)), "H08b.repeatable-read")
	}
	nd.Reach("H08b.end")
}

// VerifH08c: two Begins racing with each other and with an overwrite, then a collection: the
// collector's horizon must respect the older snapshot whichever transaction registered first.
func VerifH08c() {
	P := c08P()
	nd.Bound("H08c.preemption_bound", P)
	concreteCounter = true
	w := newWorld(stdConfig(), []string{"a"})
	v1 := w.freshVal()
	nd.Assert(w.doSet(0, "a", v1, 0) == nil, "H08c.pre")
	v2 := w.freshVal()
	var r2 fs_db.Tx
	// optionally an eldest snapshot is already open and has read the key; then the overwrite
	// happens before the two Begins race (three open transactions: the collector's horizon must be
	// the eldest one's however the two younger ones registered)
	var r0 fs_db.Tx
	if nd.Choice("eldest-snapshot-open", 2) == 1 {
		var err error
		r0, err = w.d.Begin(ctx, snapshotLevels[nd.Choice("eldest-level", 2)])
		nd.Assert(err == nil, "H08c.eldest-begin")
		g0 := txRead(r0, "a")
		nd.Assert(g0.found && nd.EqBytes(g0.val, v1), "H08c.eldest-first-read")
		nd.Assert(w.d.Set(ctx, "a", v2) == nil, "H08c.overwrite")
	}
	nd.SetPreemptionBound(P)
	go func() {
		if r0 == nil {
			_ = w.d.Set(ctx, "a", v2)
		}
		r2, _ = w.d.Begin(ctx, fs_db.IsoLevelRepeatableRead)
	}()
	r1, berr := w.d.Begin(ctx, fs_db.IsoLevelRepeatableRead)
	nd.JoinAll()
	nd.SetPreemptionBound(0)
	nd.Assert(berr == nil && r2 != nil, "H08c.begins")
	// collect (logical and physical phase) while both snapshots are open
	nd.Assert(w.c.Cleaner().DeleteOld(ctx) == nil, "H08c.gc")
	verifenv.RunJobs()
	if r0 != nil {
		g0 := txRead(r0, "a")
		nd.Assert(g0.found, "H08c.eldest-snapshot-value-survives-collection")
		if g0.found {
			nd.Assert(nd.EqBytes(g0.val, v1), "H08c.eldest-snapshot-repeatable-read")
		}
		nd.Reach("H08c.three-open")
	}
	g1, g2 := txRead(r1, "a"), txRead(r2, "a")
	nd.Assert(g1.found, "H08c.older-snapshot-value-survives-collection")
	nd.Assert(g2.found, "H08c.younger-snapshot-value-survives-collection")
	if g1.found && g2.found {
		nd.Assert(nd.Or(nd.EqBytes(g1.val, v1), nd.EqBytes(g1.val, v2)), "H08c.snapshot-value")
		nd.Assert(nd.EqBytes(g2.val, v2), "H08c.younger-snapshot-value")
	}
	nd.Reach("H08c.end")
}
