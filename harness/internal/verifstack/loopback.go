//go:build verif

package verifstack

import (
	"context"
	"errors"
	"io"

	"google.golang.org/grpc"
	"google.golang.org/grpc/metadata"

	"github.com/glebziz/fs_db"
	"github.com/glebziz/fs_db/config"
	"github.com/glebziz/fs_db/internal/app"
	storeService "github.com/glebziz/fs_db/internal/delivery/grpc/store"
	"github.com/glebziz/fs_db/internal/di"
	pb "github.com/glebziz/fs_db/internal/proto"
	"github.com/glebziz/fs_db/internal/utils/grpc/interceptors/server"
	"github.com/glebziz/fs_db/internal/verifenv"
	nd "github.com/glebziz/fs_db/internal/verifnd"
	externaldb "github.com/glebziz/fs_db/pkg/external/db"
)

// Loop-back transport: implements the generated client interface by calling the real
// delivery/grpc/store.Service through the real context interceptors. Contract (DESIGN section 3):
// streams are in-order lossless FIFO queues, messages are copied when sent (the wire serialises),
// the handler's returned error is what the client receives at the end of the stream, outgoing
// metadata arrives as incoming metadata. Fault mode: the server's Recv fails after a chosen
// number of messages (connection broken / client cancelled); a stream whose context is cancelled
// accepts no further Send, and a stream the client never completes reaches the server as a prefix
// of its messages followed by a non-EOF error (finishAbandoned).

var errTransport = errors.New("transport is closing")

type loopClient struct {
	svc *storeService.Service
	// upload streams the client has opened and not completed with CloseAndRecv
	open []*setFileClient
	// concurrentUploads: the server's handler of an upload runs in a goroutine of its own while the
	// client is still sending (as it does in reality), so that it can END the call before the
	// client has sent everything: gRPC then answers further Sends with io.EOF and delivers the
	// status through CloseAndRecv. The default (false) runs the handler at CloseAndRecv.
	concurrentUploads bool
	// recvFailAfter >= 0: the server's Recv on an upload stream fails with a non-EOF transport
	// error after that many messages
	recvFailAfter int
}

func (c *loopClient) incoming(ctx context.Context) context.Context {
	md, _ := metadata.FromOutgoingContext(ctx)
	return metadata.NewIncomingContext(context.Background(), md.Copy())
}

func (c *loopClient) unary(ctx context.Context, req any, h func(ctx context.Context) (any, error)) (any, error) {
	resp, err := server.ContextInterceptor(c.incoming(ctx), req, nil, func(ctx context.Context, _ any) (any, error) { return h(ctx) })
	if err != nil {
		return nil, verifenv.Transport(err)
	}
	return resp, nil
}

func (c *loopClient) GetKeys(ctx context.Context, in *pb.GetKeysRequest, _ ...grpc.CallOption) (*pb.GetKeysResponse, error) {
	r, err := c.unary(ctx, in, func(ctx context.Context) (any, error) { return c.svc.GetKeys(ctx, in) })
	if err != nil {
		return nil, err
	}
	return r.(*pb.GetKeysResponse), nil
}

func (c *loopClient) DeleteFile(ctx context.Context, in *pb.DeleteFileRequest, _ ...grpc.CallOption) (*pb.DeleteFileResponse, error) {
	r, err := c.unary(ctx, in, func(ctx context.Context) (any, error) { return c.svc.DeleteFile(ctx, in) })
	if err != nil {
		return nil, err
	}
	return r.(*pb.DeleteFileResponse), nil
}

func (c *loopClient) BeginTx(ctx context.Context, in *pb.BeginTxRequest, _ ...grpc.CallOption) (*pb.BeginTxResponse, error) {
	r, err := c.unary(ctx, in, func(ctx context.Context) (any, error) { return c.svc.BeginTx(ctx, in) })
	if err != nil {
		return nil, err
	}
	return r.(*pb.BeginTxResponse), nil
}

func (c *loopClient) CommitTx(ctx context.Context, in *pb.CommitTxRequest, _ ...grpc.CallOption) (*pb.CommitTxResponse, error) {
	r, err := c.unary(ctx, in, func(ctx context.Context) (any, error) { return c.svc.CommitTx(ctx, in) })
	if err != nil {
		return nil, err
	}
	return r.(*pb.CommitTxResponse), nil
}

func (c *loopClient) RollbackTx(ctx context.Context, in *pb.RollbackTxRequest, _ ...grpc.CallOption) (*pb.RollbackTxResponse, error) {
	r, err := c.unary(ctx, in, func(ctx context.Context) (any, error) { return c.svc.RollbackTx(ctx, in) })
	if err != nil {
		return nil, err
	}
	return r.(*pb.RollbackTxResponse), nil
}

// ---- common stream plumbing ----

type streamBase struct{ ctx context.Context }

func (s *streamBase) Header() (metadata.MD, error) { return nil, nil }
func (s *streamBase) Trailer() metadata.MD         { return nil }
func (s *streamBase) CloseSend() error             { return nil }
func (s *streamBase) Context() context.Context     { return s.ctx }
func (s *streamBase) SendMsg(m any) error          { return errors.New("unused") }
func (s *streamBase) RecvMsg(m any) error          { return errors.New("unused") }
func (s *streamBase) SetHeader(metadata.MD) error  { return nil }
func (s *streamBase) SendHeader(metadata.MD) error { return nil }
func (s *streamBase) SetTrailer(metadata.MD)       {}

// ---- SetFile: client streaming ----

type setFileClient struct {
	streamBase
	c    *loopClient
	q    []*pb.SetFileRequest
	done bool
}

func copySetReq(r *pb.SetFileRequest) *pb.SetFileRequest {
	out := &pb.SetFileRequest{}
	switch d := r.GetData().(type) {
	case *pb.SetFileRequest_Header:
		out.Data = &pb.SetFileRequest_Header{Header: &pb.FileHeader{Key: d.Header.GetKey()}}
	case *pb.SetFileRequest_Chunk:
		out.Data = &pb.SetFileRequest_Chunk{Chunk: append([]byte{}, d.Chunk...)}
	}
	return out
}

func (s *setFileClient) Send(r *pb.SetFileRequest) error {
	if err := s.ctx.Err(); err != nil {
		return err // the stream's context is done: nothing more is sent
	}
	s.q = append(s.q, copySetReq(r))
	return nil
}

type setFileServer struct {
	grpc.ServerStream
	q         []*pb.SetFileRequest
	pos       int
	failAfter int
}

func (s *setFileServer) Recv() (*pb.SetFileRequest, error) {
	if s.failAfter >= 0 && s.pos >= s.failAfter {
		return nil, errTransport
	}
	if s.pos >= len(s.q) {
		return nil, io.EOF
	}
	r := s.q[s.pos]
	s.pos++
	return r, nil
}
func (s *setFileServer) SendAndClose(*pb.SetFileResponse) error { return nil }

func (s *setFileClient) CloseAndRecv() (*pb.SetFileResponse, error) {
	if err := s.ctx.Err(); err != nil {
		return nil, err // cancelled: the stream is not half-closed, the server sees it as abandoned
	}
	s.done = true
	ss := &streamBase{ctx: s.c.incoming(s.ctx)}
	err := server.ContextStreamInterceptor(s.c.svc, ss, nil, func(srv any, stream grpc.ServerStream) error {
		return s.c.svc.SetFile(&setFileServer{ServerStream: stream, q: s.q, failAfter: s.c.recvFailAfter})
	})
	if err != nil {
		return nil, verifenv.Transport(err)
	}
	return &pb.SetFileResponse{}, nil
}

// ---- SetFile with the server's handler running concurrently ----

type concSetFile struct {
	streamBase
	c      *loopClient
	ch     chan *pb.SetFileRequest
	done   chan struct{}
	err    error
	ended  bool
	closed bool
}

type concSetFileServer struct {
	grpc.ServerStream
	s *concSetFile
}

func (s *concSetFileServer) Recv() (*pb.SetFileRequest, error) {
	select {
	case m, ok := <-s.s.ch:
		if !ok {
			return nil, io.EOF
		}
		return m, nil
	case <-s.s.ctx.Done():
		return nil, errTransport
	}
}
func (s *concSetFileServer) SendAndClose(*pb.SetFileResponse) error { return nil }

func (s *concSetFile) Send(r *pb.SetFileRequest) error {
	if err := s.ctx.Err(); err != nil {
		return err
	}
	if s.ended {
		return io.EOF // the call is over; the status is to be fetched with CloseAndRecv
	}
	s.ch <- copySetReq(r)
	return nil
}

func (s *concSetFile) CloseAndRecv() (*pb.SetFileResponse, error) {
	if !s.closed {
		s.closed = true
		close(s.ch)
	}
	<-s.done
	if s.err != nil {
		return nil, verifenv.Transport(s.err)
	}
	return &pb.SetFileResponse{}, nil
}

func (c *loopClient) setFileConcurrent(ctx context.Context) pb.StoreV1_SetFileClient {
	s := &concSetFile{streamBase: streamBase{ctx: ctx}, c: c, ch: make(chan *pb.SetFileRequest, 16), done: make(chan struct{})}
	go func() {
		ss := &streamBase{ctx: c.incoming(ctx)}
		s.err = server.ContextStreamInterceptor(c.svc, ss, nil, func(srv any, stream grpc.ServerStream) error {
			return c.svc.SetFile(&concSetFileServer{ServerStream: stream, s: s})
		})
		s.ended = true
		close(s.done)
	}()
	return s
}

func (c *loopClient) SetFile(ctx context.Context, _ ...grpc.CallOption) (pb.StoreV1_SetFileClient, error) {
	if c.concurrentUploads {
		return c.setFileConcurrent(ctx), nil
	}
	s := &setFileClient{streamBase: streamBase{ctx: ctx}, c: c}
	c.open = append(c.open, s)
	return s, nil
}

// finishAbandoned: what the server does with upload streams the client walked away from without
// CloseAndRecv (cancelled context, dropped connection): its handler runs, receives some prefix of
// the messages sent so far (any prefix: the reset can overtake data) and then a non-EOF error
// from Recv - never a clean end of stream, the client did not half-close.
func (c *loopClient) finishAbandoned() {
	for _, s := range c.open {
		if s.done {
			continue
		}
		s.done = true
		after := nd.Choice("abandoned-stream-delivers", len(s.q)+1)
		ss := &streamBase{ctx: c.incoming(s.ctx)}
		_ = server.ContextStreamInterceptor(c.svc, ss, nil, func(srv any, stream grpc.ServerStream) error {
			return c.svc.SetFile(&setFileServer{ServerStream: stream, q: s.q, failAfter: after})
		})
		nd.Reach("loopback.abandoned-stream")
	}
	c.open = nil
}

// ---- GetFile: server streaming ----

type getFileServer struct {
	grpc.ServerStream
	out []*pb.GetFileResponse
}

func (s *getFileServer) Send(r *pb.GetFileResponse) error {
	c := &pb.GetFileResponse{}
	switch d := r.GetData().(type) {
	case *pb.GetFileResponse_Header:
		c.Data = &pb.GetFileResponse_Header{Header: &pb.FileHeader{Key: d.Header.GetKey()}}
	case *pb.GetFileResponse_Chunk:
		c.Data = &pb.GetFileResponse_Chunk{Chunk: append([]byte{}, d.Chunk...)}
	}
	s.out = append(s.out, c)
	return nil
}

type getFileClient struct {
	streamBase
	q   []*pb.GetFileResponse
	err error
}

func (s *getFileClient) Recv() (*pb.GetFileResponse, error) {
	if len(s.q) > 0 {
		r := s.q[0]
		s.q = s.q[1:]
		return r, nil
	}
	if s.err != nil {
		return nil, s.err
	}
	return nil, io.EOF
}

func (c *loopClient) GetFile(ctx context.Context, in *pb.GetFileRequest, _ ...grpc.CallOption) (pb.StoreV1_GetFileClient, error) {
	ss := &streamBase{ctx: c.incoming(ctx)}
	var srv *getFileServer
	err := server.ContextStreamInterceptor(c.svc, ss, nil, func(_ any, stream grpc.ServerStream) error {
		srv = &getFileServer{ServerStream: stream}
		return c.svc.GetFile(in, srv)
	})
	return &getFileClient{streamBase: streamBase{ctx: ctx}, q: srv.out, err: verifenv.Transport(err)}, nil
}

// openExternal starts a server-side stack (as internal/app.New does, minus the network listener)
// in the current environment and returns the external client connected to it by the loop-back.
func openExternal(cfg config.Config) (fs_db.DB, *di.Container, *loopClient) {
	nd.SetMode("seqpool", true)
	nd.Assert(cfg.Storage.Valid() == nil, "loopback.config")
	// the real start-up of the server (internal/app.New: container, pool, Load, pending deletions,
	// scheduled collection, registration of the service); the grpc.Server it builds is a token
	verifenv.Registered = nil
	a, err := app.New(ctx, cfg)
	nd.Assert(err == nil, "loopback.app-new")
	if err != nil {
		nd.Assume(false)
	}
	svc, ok := verifenv.Registered.(*storeService.Service)
	nd.Assert(ok, "loopback.service-registered")
	lc := &loopClient{svc: svc, recvFailAfter: -1}
	return externaldb.VerifNew(lc), app.VerifContainer(a), lc
}
