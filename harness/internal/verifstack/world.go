//go:build verif

package verifstack

import (
	"bytes"
	"context"
	"errors"
	"io"
	"path"
	"sort"

	"github.com/glebziz/fs_db"
	"github.com/glebziz/fs_db/config"
	"github.com/glebziz/fs_db/internal/di"
	"github.com/glebziz/fs_db/internal/model"
	"github.com/glebziz/fs_db/internal/model/sequence"
	"github.com/glebziz/fs_db/internal/verifenv"
	nd "github.com/glebziz/fs_db/internal/verifnd"
)

// ---------- API-level reference model (DESIGN 4.3), written from the property statements ----------

type rver struct {
	key   string
	val   []byte
	del   bool
	owner int // 0 = committed (main), i > 0 = transaction i
	pos   int // recency: creation order; a commit re-stamps
}

type rtx struct {
	level    model.TxIsoLevel
	beginPos int
	open     bool
	h        fs_db.Tx
}

type world struct {
	cfg         config.Config
	d           fs_db.DB
	c           *di.Container
	vs          []rver
	txs         []*rtx // index 0 unused (autocommit)
	clock       int
	nval        int
	keys        []string
	vlen        int
	pend        *pendingOp // the operation in flight (set before the call, cleared when it returns)
	stepKeys    []string   // keys the history alphabet writes (default: keys)
	otherOpened bool       // another database of the same process has been opened
	// storerAhead: keys for which the storing goroutine of an inline Create is let run until it
	// parks (waiting for data) after Create and after every Write - the usual schedule in
	// practice; for the other keys it runs only when the writer blocks in Close
	storerAhead map[string]bool
	// mixAPIs: the history steps write through all three write APIs, chosen by actor and key (no
	// extra paths): a transaction writes key a through Create+Write+Close and the other keys
	// through SetReader; autocommit writes key a through Set and the other keys through Create
	mixAPIs bool
}

// howFor: the write API a history step uses for (actor, key).
func (w *world) howFor(t int, key string) int {
	if !w.mixAPIs {
		return 0
	}
	switch {
	case t != 0 && key == "a":
		return 2
	case t != 0:
		return 1
	case key == "a":
		return 0
	}
	return 2
}

// dataEOFReader hands out its data in short reads of at most 1000 bytes (so that io.Copy reuses
// its buffer between the Writes it makes: a writer that keeps the slice it was given sees it
// overwritten) and the last of them together with io.EOF (n > 0 and io.EOF in the same call,
// which the io.Reader contract allows: HTTP bodies with a Content-Length do it).
type dataEOFReader struct {
	b    []byte
	done bool
}

func (r *dataEOFReader) Read(p []byte) (int, error) {
	if r.done {
		return 0, io.EOF
	}
	if len(p) > 1000 {
		p = p[:1000]
	}
	n := copy(p, r.b)
	r.b = r.b[n:]
	if len(r.b) == 0 {
		r.done = true
		return n, io.EOF
	}
	return n, nil
}

// scribble overwrites a buffer the harness has handed to a Write that has returned.
func scribble(b []byte) {
	for i := range b {
		b[i] = 0x5a
	}
}

type pendingOp struct {
	kind int // 0 set, 1 delete, 2 commit
	t    int
	key  string
	val  []byte
}

// concreteCounter: harnesses whose subject is not the counter (C04) start every process at 0.
var concreteCounter bool

func newWorld(cfg config.Config, keys []string) *world {
	w := &world{cfg: cfg, keys: keys, txs: []*rtx{nil}, vlen: 1}
	// the process-global sequence counter is anywhere (other databases of this process may have
	// advanced it); only wrap-around is excluded (DESIGN 6.2)
	if concreteCounter {
		sequence.VerifSetCounter(0)
	} else {
		c0 := nd.U64("process-counter")
		nd.Assume(c0 < 1<<62)
		sequence.VerifSetCounter(c0)
	}
	w.d, w.c = openSeq(cfg)
	return w
}

func (w *world) tick() int { w.clock++; return w.clock }

func (w *world) lastOf(owner int, key string) (rver, bool) {
	for i := len(w.vs) - 1; i >= 0; i-- {
		if w.vs[i].owner == owner && w.vs[i].key == key {
			return w.vs[i], true
		}
	}
	return rver{}, false
}

// visible: what reader t (0 = autocommit) must get for key; found=false means ErrNotFound.
func (w *world) visible(t int, key string) (rver, bool) {
	level := fs_db.IsoLevelReadCommitted
	if t != 0 {
		level = w.txs[t].level
	}
	var v rver
	ok := false
	switch level {
	case fs_db.IsoLevelReadUncommitted:
		for i := len(w.vs) - 1; i >= 0; i-- {
			if w.vs[i].key == key && (!ok || w.vs[i].pos > v.pos) {
				v, ok = w.vs[i], true
			}
		}
	case fs_db.IsoLevelReadCommitted:
		own, okO := w.lastOf(t, key)
		mn, okM := w.lastOf(0, key)
		switch {
		case okO && (!okM || own.pos > mn.pos):
			v, ok = own, true
		case okM:
			v, ok = mn, true
		}
	default:
		if own, okO := w.lastOf(t, key); okO && t != 0 {
			v, ok = own, true
		} else {
			for i := len(w.vs) - 1; i >= 0; i-- {
				if w.vs[i].owner == 0 && w.vs[i].key == key && w.vs[i].pos < w.txs[t].beginPos {
					v, ok = w.vs[i], true
					break
				}
			}
		}
	}
	if ok && v.del {
		return rver{}, false
	}
	return v, ok
}

func (w *world) store(t int) fs_db.Store {
	if t == 0 {
		return w.d
	}
	return w.txs[t].h
}

// checkReads: every actor reads every key and the key list; all compared with the model.
func (w *world) checkReads(id string) {
	for t := 0; t < len(w.txs); t++ {
		if t != 0 && !w.txs[t].open {
			continue
		}
		st := w.store(t)
		var want []string
		for _, k := range w.keys {
			exp, ok := w.visible(t, k)
			got, err := st.Get(ctx, k)
			if !ok {
				nd.Assert(isNotFound(err), id+".get-notfound")
				continue
			}
			want = append(want, k)
			nd.Assert(err == nil, id+".get-found")
			if err == nil {
				nd.Assert(nd.EqBytes(got, exp.val), id+".get-content")
			}
		}
		sort.Strings(want)
		keys, err := st.GetKeys(ctx)
		nd.Assert(err == nil, id+".getkeys-ok")
		nd.Assert(len(keys) == len(want), id+".getkeys-count")
		if len(keys) == len(want) {
			for i := range want {
				nd.Assert(keys[i] == want[i], id+".getkeys-sorted-exact")
			}
		}
	}
}

func (w *world) freshVal() []byte {
	w.nval++
	return nd.Bytes("val", w.vlen)
}

func (w *world) doSet(t int, key string, val []byte, how int) error {
	st := w.store(t)
	w.pend = &pendingOp{kind: 0, t: t, key: key, val: val}
	defer func() { w.pend = nil }()
	var err error
	// every call runs under a context of its own that is cancelled as soon as the call has
	// returned (the caller's `defer cancel()`; what the gRPC server does with a request context)
	ctx, cancel := context.WithCancel(ctx)
	defer cancel()
	switch how {
	case 0:
		err = st.Set(ctx, key, val)
	case 1:
		if key == "a" {
			err = st.SetReader(ctx, key, bytes.NewReader(val))
		} else {
			// the other keys are uploaded from a reader that returns its last bytes WITH io.EOF
			err = st.SetReader(ctx, key, &dataEOFReader{b: val})
		}
	default:
		f, cerr := st.Create(ctx, key)
		if cerr != nil {
			return cerr
		}
		if w.storerAhead[key] {
			nd.Quiescent()
		}
		// split into two writes when possible; both come from one scratch buffer that is
		// overwritten as soon as Write has returned (an io.Writer must not keep the slice)
		h := len(val) / 2
		scratch := make([]byte, len(val)-h)
		_, err = f.Write(scratch[:copy(scratch, val[:h])])
		scribble(scratch)
		if w.storerAhead[key] {
			nd.Quiescent()
		}
		if err == nil {
			_, err = f.Write(scratch[:copy(scratch, val[h:])])
			scribble(scratch)
		}
		cerr = f.Close()
		if err == nil {
			err = cerr
		}
	}
	if err == nil {
		w.vs = append(w.vs, rver{key: key, val: val, owner: t, pos: w.tick()})
	}
	return err
}

func (w *world) doDelete(t int, key string) error {
	w.pend = &pendingOp{kind: 1, t: t, key: key}
	defer func() { w.pend = nil }()
	ctx, cancel := context.WithCancel(ctx)
	defer cancel()
	err := w.store(t).Delete(ctx, key)
	if err == nil {
		w.vs = append(w.vs, rver{key: key, del: true, owner: t, pos: w.tick()})
	}
	return err
}

func (w *world) begin(level model.TxIsoLevel) int {
	h, err := w.d.Begin(ctx, level)
	nd.Assert(err == nil, "world.begin")
	if err != nil {
		nd.Assume(false)
	}
	w.txs = append(w.txs, &rtx{level: level, beginPos: w.tick(), open: true, h: h})
	return len(w.txs) - 1
}

// commit applies the reference semantics and checks the real result against it.
func (w *world) commit(t int, id string) {
	tx := w.txs[t]
	conflict := false
	last := map[string]rver{}
	var wkeys []string
	for _, v := range w.vs {
		if v.owner == t {
			if _, ok := last[v.key]; !ok {
				wkeys = append(wkeys, v.key)
			}
			last[v.key] = v
		}
	}
	if tx.level >= fs_db.IsoLevelRepeatableRead {
		for _, k := range wkeys {
			if mn, ok := w.lastOf(0, k); ok && mn.pos > tx.beginPos {
				conflict = true
			}
		}
	}
	w.pend = &pendingOp{kind: 2, t: t}
	cctx, cancel := context.WithCancel(ctx)
	err := tx.h.Commit(cctx)
	cancel()
	w.pend = nil
	var rest []rver
	for _, v := range w.vs {
		if v.owner != t {
			rest = append(rest, v)
		}
	}
	if conflict {
		nd.Assert(errors.Is(err, fs_db.ErrTxSerialization), id+".conflict-reported")
		nd.Reach(id + ".conflict")
	} else {
		nd.Assert(err == nil, id+".commit-ok")
		for _, k := range wkeys {
			v := last[k]
			v.owner = 0
			v.pos = w.tick()
			rest = append(rest, v)
		}
	}
	w.vs = rest
	tx.open = false
}

func (w *world) rollback(t int, id string) {
	cctx, cancel := context.WithCancel(ctx)
	err := w.txs[t].h.Rollback(cctx)
	cancel()
	nd.Assert(err == nil, id+".rollback-ok")
	var rest []rver
	for _, v := range w.vs {
		if v.owner != t {
			rest = append(rest, v)
		}
	}
	w.vs = rest
	w.txs[t].open = false
}

func (w *world) gc(id string) {
	err := w.c.Cleaner().DeleteOld(ctx)
	nd.Assert(err == nil, id+".gc-ok")
}

func (w *world) openTxs() []int {
	var out []int
	for t := 1; t < len(w.txs); t++ {
		if w.txs[t].open {
			out = append(out, t)
		}
	}
	return out
}

// reopen: Close, then a new "process" opens the same durable state.
func (w *world) reopen(id string) {
	nd.Assert(w.d.Close() == nil, id+".close-ok")
	verifenv.Restart()
	var rest []rver
	for _, v := range w.vs {
		if v.owner == 0 {
			rest = append(rest, v)
		}
	}
	w.vs = rest
	for _, tx := range w.txs[1:] {
		tx.open = false
	}
	// either the same process reopens the database (counter kept), or a new process does, whose
	// counter is wherever the databases it opened before have left it
	if !concreteCounter && nd.Choice("new-process", 2) == 1 {
		c := nd.U64("process-counter")
		nd.Assume(c < 1<<62)
		sequence.VerifSetCounter(c)
	}
	w.d, w.c = openSeq(w.cfg)
}

// liveContents: the contents Get can return for autocommit, per key (C14).
func (w *world) liveCount() int {
	n := 0
	for _, k := range w.keys {
		if _, ok := w.visible(0, k); ok {
			n++
		}
	}
	return n
}

type fs_dbLevel = model.TxIsoLevel

// quiesce: every transaction ends, background deletions drain, one collection pass, drain again.
func (w *world) quiesce(id string) {
	for _, t := range w.openTxs() {
		w.rollback(t, id)
	}
	verifenv.RunJobs()
	w.gc(id)
	verifenv.RunJobs()
}

// checkDisk: the storage roots contain exactly one content file per key Get can return.
func (w *world) checkDisk(id string) {
	var files []string
	for _, r := range w.cfg.Storage.RootDirs {
		files = append(files, verifenv.FS.Files(r)...)
	}
	nd.Assert(len(files) == w.liveCount(), id+".file-count")
	for _, k := range w.keys {
		v, ok := w.visible(0, k)
		if !ok {
			continue
		}
		found := false
		for _, f := range files {
			data, _ := verifenv.FS.Content(f)
			found = nd.Or(found, nd.EqBytes(data, v.val))
		}
		nd.Assert(found, id+".live-content-on-disk")
	}
	// every file sits directly in a directory that sits directly in a configured root
	for _, f := range files {
		okPlace := false
		for _, r := range w.cfg.Storage.RootDirs {
			if path.Dir(path.Dir(f)) == r {
				okPlace = true
			}
		}
		nd.Assert(okPlace, id+".file-placement")
	}
	// content records exist only for live contents
	nd.Assert(len(verifenv.KV.Store(w.cfg.Storage.DbPath).Keys("fileContent/")) == w.liveCount(), id+".content-records")
}
