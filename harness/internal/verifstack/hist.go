//go:build verif

package verifstack

import (
	"errors"

	"github.com/glebziz/fs_db"
	"github.com/glebziz/fs_db/internal/model"
	"github.com/glebziz/fs_db/internal/verifenv"
	nd "github.com/glebziz/fs_db/internal/verifnd"
)

// history alphabet switches
type alpha struct {
	tx, gc, drain, reopen, otherDB bool
	deleteEmptyKey                 bool // Delete("") is accepted by the store (only Set rejects the empty key)
	maxTx                          int
	levels                         []model.TxIsoLevel
}

var allLevels = []model.TxIsoLevel{fs_db.IsoLevelReadUncommitted, fs_db.IsoLevelReadCommitted, fs_db.IsoLevelRepeatableRead, fs_db.IsoLevelSerializable}

// step performs one operation chosen from the alphabet and updates the reference model.
// Returns a short label of what was done.
func (w *world) step(a alpha, id string) string {
	open := w.openTxs()
	// actors: autocommit + open transactions
	type opt struct {
		kind, t int
		key     string
	}
	var opts []opt
	skeys := w.stepKeys
	if skeys == nil {
		skeys = w.keys
	}
	for _, k := range skeys {
		opts = append(opts, opt{0, 0, k}, opt{1, 0, k}) // autocommit set / delete
		for _, t := range open {
			opts = append(opts, opt{0, t, k}, opt{1, t, k})
		}
	}
	if a.tx {
		if len(open) < a.maxTx {
			opts = append(opts, opt{2, 0, ""})
		}
		for _, t := range open {
			opts = append(opts, opt{3, t, ""}, opt{4, t, ""})
		}
	}
	if a.gc {
		opts = append(opts, opt{5, 0, ""})
	}
	if a.drain {
		opts = append(opts, opt{6, 0, ""})
	}
	if a.reopen {
		opts = append(opts, opt{7, 0, ""})
	}
	if a.otherDB && !w.otherOpened {
		opts = append(opts, opt{8, 0, ""})
	}
	if a.deleteEmptyKey {
		opts = append(opts, opt{1, 0, ""})
	}
	o := opts[nd.Choice("op", len(opts))]
	switch o.kind {
	case 0:
		nd.Assert(w.doSet(o.t, o.key, w.freshVal(), w.howFor(o.t, o.key)) == nil, id+".set-ok")
		return "set"
	case 1:
		nd.Assert(w.doDelete(o.t, o.key) == nil, id+".delete-ok")
		return "delete"
	case 2:
		w.begin(a.levels[nd.Choice("level", len(a.levels))])
		return "begin"
	case 3:
		w.commit(o.t, id)
		return "commit"
	case 4:
		w.rollback(o.t, id)
		return "rollback"
	case 5:
		w.gc(id)
		nd.Reach(id + ".gc")
		return "gc"
	case 6:
		verifenv.RunJobs()
		return "drain"
	case 7:
		w.reopen(id)
		nd.Reach(id + ".reopen")
		return "reopen"
	default:
		// the same process opens another (smaller) database meanwhile
		w.otherOpened = true
		cfg2 := stdConfig("other-root")
		cfg2.Storage.DbPath = "other-db"
		openSeq(cfg2)
		nd.Reach(id + ".other-db-opened-meanwhile")
		return "other-db"
	}
}

func histSteps(q, t int) int {
	if nd.Tier() == 1 {
		return t
	}
	return q
}

// VerifH02c: C02/C03/C09 over the assembled stack: histories of Begin/Set/Delete/Commit/Rollback/GC
// (+ background deletion), every actor re-reads everything after every step.
func VerifH02c() {
	k := histSteps(4, 4) // thorough: same length, two keys
	nd.Bound("H02c.steps", k)
	w := newWorld(stdConfig(), []string{"a", "b"})
	w.mixAPIs = true
	a := alpha{tx: true, gc: true, drain: true, maxTx: 2, levels: allLevels}
	if nd.Tier() == 0 {
		w.keys = []string{"a"} // quick: one key; all four levels (each has its own dispatch arm in Get, GetKeys and Commit)
	}
	for i := 0; i < k; i++ {
		w.step(a, "H02c")
		w.checkReads("H02c")
	}
	// quiescence: drain, collect, drain; nothing readable changes
	verifenv.RunJobs()
	w.gc("H02c")
	verifenv.RunJobs()
	w.checkReads("H02c.final")
	nd.Reach("H02c.end")
}

// VerifH03c: commit/rollback focus: two keys, snapshot and non-snapshot transactions, autocommit
// interference, no GC (smaller alphabet, longer histories).
func VerifH03c() {
	k := histSteps(3, 4)
	nd.Bound("H03c.steps", k)
	w := newWorld(stdConfig(), []string{"a", "b"})
	w.mixAPIs = true
	a := alpha{tx: true, maxTx: 2, levels: allLevels}
	// a transaction is open from the start (saves one step of every history)
	w.begin(a.levels[nd.Choice("level0", 4)])
	for i := 0; i < k; i++ {
		w.step(a, "H03c")
		w.checkReads("H03c")
	}
	// what was committed is durable as committed: a clean restart shows exactly the committed
	// state (open transactions are gone with the process)
	concreteCounter = true // same process first
	w.reopen("H03c")
	w.checkReads("H03c.after-reopen")
	// ... and in a NEW process (its counter starts at zero and is set by Load): a snapshot
	// transaction that begins now and writes a key conflicts with nothing
	nd.Assert(w.d.Close() == nil, "H03c.close")
	newProcess()
	w.d, w.c = openSeq(w.cfg)
	w.checkReads("H03c.new-process")
	fresh := w.begin(fs_db.IsoLevelSerializable)
	nd.Assert(w.doSet(fresh, "a", w.freshVal(), 0) == nil, "H03c.write-after-restart")
	w.commit(fresh, "H03c.after-restart")
	w.checkReads("H03c.after-restart-commit")
	nd.Reach("H03c.end")
}

// VerifH05b: C05 over the assembled stack: Close/Open at any position, several times.
func VerifH05b() {
	k := histSteps(3, 4)
	nd.Bound("H05b.steps", k)
	w := newWorld(stdConfig(), []string{"a"})
	w.mixAPIs = true
	a := alpha{tx: true, reopen: true, drain: true, otherDB: true, deleteEmptyKey: true, maxTx: 1, levels: []model.TxIsoLevel{fs_db.IsoLevelReadCommitted}}
	// another database instance of the same process may have advanced the process counter
	if nd.Choice("other-db-first", 2) == 1 {
		w.otherOpened = true
		cfg2 := stdConfig("other-root")
		cfg2.Storage.DbPath = "other-db"
		o, _ := openSeq(cfg2)
		nd.Assert(o.Set(ctx, "x", []byte("1")) == nil, "H05b.other-set")
		nd.Assert(o.Set(ctx, "x", []byte("2")) == nil, "H05b.other-set")
	}
	for i := 0; i < k; i++ {
		w.step(a, "H05b")
		w.checkReads("H05b")
	}
	w.reopen("H05b.final")
	w.checkReads("H05b.final")
	nd.Assert(len(w.openTxs()) == 0, "H05b.no-open-tx")
	nd.Reach("H05b.end")
}

var _ = errors.Is

// VerifH02d: the level dispatch of store.Get, store.GetKeys and transaction.Commit: one scripted
// history that tells all four levels apart, run for every level (reads of the transaction under
// test, then its commit).
func VerifH02d() {
	concreteCounter = nd.Choice("counter", 2) == 0
	w := newWorld(stdConfig(), []string{"a", "b", "c"})
	level := allLevels[nd.Choice("level", 4)]
	nd.Assert(w.doSet(0, "a", w.freshVal(), 0) == nil, "H02d.pre")
	nd.Assert(w.doSet(0, "c", w.freshVal(), 0) == nil, "H02d.pre")
	t := w.begin(level)
	// after t began: a committed overwrite of a, a committed delete of c, another transaction's
	// uncommitted write of b
	nd.Assert(w.doSet(0, "a", w.freshVal(), 0) == nil, "H02d.overwrite")
	nd.Assert(w.doDelete(0, "c") == nil, "H02d.delete")
	u := w.begin(fs_db.IsoLevelReadCommitted)
	nd.Assert(w.doSet(u, "b", w.freshVal(), 0) == nil, "H02d.other-tx-write")
	w.checkReads("H02d.reads")
	// t writes a key that was overwritten since it began, and one that was not
	switch nd.Choice("t-writes", 3) {
	case 0:
		nd.Assert(w.doSet(t, "a", w.freshVal(), 0) == nil, "H02d.t-write")
	case 1:
		nd.Assert(w.doSet(t, "b", w.freshVal(), 0) == nil, "H02d.t-write")
	case 2:
		nd.Assert(w.doDelete(t, "c") == nil, "H02d.t-delete")
	}
	w.checkReads("H02d.reads2")
	w.commit(t, "H02d")
	w.checkReads("H02d.after-commit")
	w.rollback(u, "H02d")
	w.checkReads("H02d.end")
	nd.Reach("H02d.end")
}
