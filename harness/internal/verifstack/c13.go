//go:build verif

package verifstack

import (
	"bytes"
	"errors"

	"github.com/glebziz/fs_db"
	"github.com/glebziz/fs_db/internal/verifenv"
	nd "github.com/glebziz/fs_db/internal/verifnd"
	inlinedb "github.com/glebziz/fs_db/pkg/inline/db"
)

// lateOp issues one operation through a handle whose transaction has ended (or never existed)
// and returns its error; kinds: 0 Get 1 GetReader 2 GetKeys 3 Set 4 SetReader 5 Create(+Write+Close)
// 6 Delete 7 Commit 8 Rollback.
func lateOp(h fs_db.Tx, kind int, key string) error {
	switch kind {
	case 0:
		_, err := h.Get(ctx, key)
		return err
	case 1:
		_, err := h.GetReader(ctx, key)
		return err
	case 2:
		_, err := h.GetKeys(ctx)
		return err
	case 3:
		return h.Set(ctx, key, []byte("late"))
	case 4:
		return h.SetReader(ctx, key, bytes.NewReader([]byte("late")))
	case 5:
		f, err := h.Create(ctx, key)
		if err != nil {
			return err
		}
		_, werr := f.Write([]byte("late"))
		cerr := f.Close()
		if werr != nil {
			return werr
		}
		return cerr
	case 6:
		return h.Delete(ctx, key)
	case 7:
		return h.Commit(ctx)
	default:
		return h.Rollback(ctx)
	}
}

var lateNames = []string{"Get", "GetReader", "GetKeys", "Set", "SetReader", "Create", "Delete", "Commit", "Rollback"}

// VerifH13: a finished (or unknown) transaction is finished: error class of every late call.
func VerifH13() { verifH13(true, "H13") }

// VerifH13b: whatever a late call returns, it has no effect visible to anyone, now, after cleanup
// or after a restart.
func VerifH13b() { verifH13(false, "H13b") }

func verifH13(checkClass bool, id string) {
	nd.SetPreemptionBound(0)
	w := newWorld(stdConfig(), []string{"a"})
	if nd.Choice("pre-value", 2) == 1 {
		nd.Assert(w.doSet(0, "a", w.freshVal(), 0) == nil, id+".pre")
	}
	// observers at the two non-snapshot levels and one snapshot observer
	w.begin(fs_db.IsoLevelReadUncommitted)
	w.begin(fs_db.IsoLevelReadCommitted)
	var h fs_db.Tx
	// the victim's own read may be the last use of the transaction registry before it ends, and
	// nobody else may consult the registry before the late call
	victimReadsLast := false
	how := nd.Choice("ended-how", 4) // 0 commit, 1 rollback, 2 commit failing with a conflict, 3 never begun
	if how == 3 {
		h = inlinedb.VerifTx(w.d, "99999999-9999-4999-8999-999999999999")
	} else {
		level := allLevels[nd.Choice("level", 4)]
		if how == 2 {
			level = allLevels[2+nd.Choice("snapshot-level", 2)]
		}
		v := w.begin(level)
		h = w.txs[v].h
		switch nd.Choice("victim-writes", 3) {
		case 1:
			nd.Assert(w.doSet(v, "a", w.freshVal(), 0) == nil, id+".victim-set")
		case 2:
			nd.Assert(w.doDelete(v, "a") == nil, id+".victim-delete")
		default:
			if how == 2 {
				nd.Assume(false) // a conflict needs a write
			}
		}
		if victimReadsLast = nd.Choice("victim-reads-last", 2) == 1; victimReadsLast {
			exp, ok := w.visible(v, "a")
			got, err := h.Get(ctx, "a")
			if ok {
				nd.Assert(err == nil && nd.EqBytes(got, exp.val), id+".victim-read")
			} else {
				nd.Assert(isNotFound(err), id+".victim-read")
			}
		}
		switch how {
		case 0:
			w.commit(v, "H13")
		case 1:
			w.rollback(v, "H13")
		case 2:
			nd.Assert(w.doSet(0, "a", w.freshVal(), 0) == nil, id+".interfering-write")
			w.commit(v, "H13")
			nd.Reach(id + ".conflict-end")
		}
	}
	if !victimReadsLast {
		w.checkReads(id + ".before")
	}
	// optionally another transaction begins after the victim has ended and before the late call
	// (it must be a transaction of its own: nothing done through the ended handle touches it)
	later := 0
	if nd.Choice("another-transaction-begins-meanwhile", 2) == 1 {
		later = w.begin(fs_db.IsoLevelReadCommitted)
		nd.Assert(w.doSet(later, "a", w.freshVal(), 0) == nil, id+".later-tx-write")
	}
	kind := nd.Choice("late-op", 9)
	err := lateOp(h, kind, "a")
	if checkClass {
		if kind == 8 {
			nd.Assert(err == nil, id+".late-Rollback-is-noop")
		} else {
			nd.Assert(errors.Is(err, fs_db.ErrTxNotFound), id+".late-"+lateNames[kind]+"-fails-with-ErrTxNotFound")
		}
	}
	// no effect visible to anyone, at any level ...
	w.checkReads(id + ".after-late-" + lateNames[kind])
	// ... nor after background cleanup, nor after a restart
	if kind != 8 {
		nd.Assert(lateOp(h, 8, "a") == nil, id+".rollback-after-late")
		w.checkReads(id + ".after-late-" + lateNames[kind] + "-and-rollback")
	}
	if later != 0 {
		// the later transaction is unaffected: it still reads its own write and commits
		w.commit(later, id+".later-tx")
		w.checkReads(id + ".after-later-commit")
	}
	verifenv.RunJobs()
	w.reopen("H13")
	w.checkReads(id + ".after-restart")
	nd.Reach(id + ".end")
}

// VerifH14: the disk holds only live data at quiescence.
func VerifH14() {
	k := histSteps(4, 5)
	nd.Bound("H14.steps", k)
	w := newWorld(stdConfig(), []string{"a", "b"})
	w.mixAPIs = true
	a := alpha{tx: true, maxTx: 1, levels: []fs_dbLevel{fs_db.IsoLevelReadCommitted, fs_db.IsoLevelSerializable}}
	if nd.Tier() == 0 {
		w.keys = []string{"a"}
	}
	// optionally a transaction is open from the start (so that several writes of one key inside a
	// transaction followed by its commit fit into the bound)
	if lv := nd.Choice("start-with-tx", 3); lv < 2 {
		w.begin(a.levels[lv])
	}
	for i := 0; i < k; i++ {
		w.step(a, "H14")
	}
	w.quiesce("H14")
	w.checkDisk("H14.disk")
	w.checkReads("H14.reads")
	// the same after a clean reopen for everything that was pending at Close
	nd.Reach("H14.end")
}

// VerifH14b: pending deletions at Close are completed after the reopen.
func VerifH14b() {
	k := histSteps(3, 4)
	nd.Bound("H14b.steps", k)
	w := newWorld(stdConfig(), []string{"a"})
	w.mixAPIs = true
	a := alpha{tx: true, maxTx: 1, levels: []fs_dbLevel{fs_db.IsoLevelReadCommitted, fs_db.IsoLevelSerializable}}
	for i := 0; i < k; i++ {
		w.step(a, "H14b")
	}
	// Close with whatever is pending (queued jobs are dropped), reopen, then quiescence
	w.reopen("H14b")
	w.quiesce("H14b")
	w.checkDisk("H14b.disk")
	w.checkReads("H14b.reads")
	nd.Reach("H14b.end")
}

// VerifH14d: the server restarted with garbage pending. Through the gRPC client and the real
// start-up of the server (internal/app.New): superseded versions not yet collected and the writes
// of a transaction that never finished are on disk when the server stops; after the next start-up
// (Load hands the leftovers to the cleaner), the drained deletions and a collection pass, the
// roots hold exactly the live contents.
func VerifH14d() {
	nd.SetPreemptionBound(0)
	concreteCounter = true
	cfg := stdConfig()
	w := &world{cfg: cfg, keys: []string{"a", "b"}, txs: []*rtx{nil}, vlen: 1}
	w.d, w.c, _ = openExternal(cfg)
	nd.Assert(w.doSet(0, "a", w.freshVal(), 0) == nil, "H14d.write")
	if nd.Choice("overwritten", 2) == 1 {
		nd.Assert(w.doSet(0, "a", w.freshVal(), 0) == nil, "H14d.overwrite")
	}
	if nd.Choice("deleted", 2) == 1 {
		nd.Assert(w.doSet(0, "b", w.freshVal(), 0) == nil, "H14d.write-b")
		nd.Assert(w.doDelete(0, "b") == nil, "H14d.delete-b")
	}
	if nd.Choice("unfinished-transaction", 2) == 1 {
		t := w.begin(fs_db.IsoLevelReadCommitted)
		nd.Assert(w.doSet(t, "b", w.freshVal(), 0) == nil, "H14d.tx-write")
		w.txs[t].open = false
		var rest []rver
		for _, v := range w.vs {
			if v.owner == 0 {
				rest = append(rest, v)
			}
		}
		w.vs = rest
	}
	if nd.Choice("drained-before-stop", 2) == 1 {
		verifenv.RunJobs()
	}
	// stop (what internal/app.Stop does) and start again
	w.c.Pool().Stop()
	nd.Assert(w.c.Badger().Close() == nil, "H14d.stop")
	newProcess()
	w.d, w.c, _ = openExternal(cfg)
	verifenv.RunJobs()
	w.gc("H14d")
	verifenv.RunJobs()
	w.checkDisk("H14d.disk")
	w.checkReads("H14d.reads")
	nd.Reach("H14d.end")
}

// VerifH13d: two calls finishing the same transaction at the same time (a watchdog's Rollback
// racing the worker's Commit, a retried Commit). Exactly one of them finishes it: a Commit that
// returns nil has published the writes, a Commit that lost reports ErrTxNotFound and nothing is
// published; the handle is finished afterwards.
func VerifH13d() {
	P := 1
	if nd.Tier() == 1 {
		P = 2
	}
	nd.Bound("H13d.preemption_bound", P)
	concreteCounter = true
	w := newWorld(stdConfig(), []string{"a"})
	old := w.freshVal()
	nd.Assert(w.doSet(0, "a", old, 0) == nil, "H13d.pre")
	t := w.begin(allLevels[nd.Choice("level", 4)])
	nv := w.freshVal()
	nd.Assert(w.doSet(t, "a", nv, 0) == nil, "H13d.tx-write")
	h := w.txs[t].h
	otherCommits := nd.Choice("other-call-is-a-commit", 2) == 1
	var e1, e2 error
	nd.SpawnRunsFirst(P == 1)
	nd.SetPreemptionBound(P)
	go func() {
		if otherCommits {
			e2 = h.Commit(ctx)
		} else {
			e2 = h.Rollback(ctx)
		}
	}()
	e1 = h.Commit(ctx)
	nd.JoinAll()
	nd.SetPreemptionBound(0)
	committed := e1 == nil || (otherCommits && e2 == nil)
	if otherCommits {
		nd.Assert(!(e1 == nil && e2 == nil), "H13d.both-commits-of-one-transaction-succeed")
	} else {
		nd.Assert(e2 == nil, "H13d.rollback-is-tolerant")
	}
	if e1 != nil {
		nd.Assert(errors.Is(e1, fs_db.ErrTxNotFound), "H13d.losing-commit-reports-ErrTxNotFound")
	}
	nd.Assume(!nd.EqBytes(old, nv))
	got, err := w.d.Get(ctx, "a")
	nd.Assert(err == nil, "H13d.read")
	if err == nil {
		if committed {
			nd.Assert(nd.EqBytes(got, nv), "H13d.commit-reported-success-but-the-writes-are-gone")
		} else {
			nd.Assert(nd.EqBytes(got, old), "H13d.nothing-committed-but-the-writes-are-visible")
		}
	}
	nd.Assert(errors.Is(h.Commit(ctx), fs_db.ErrTxNotFound), "H13d.finished-afterwards")
	nd.Reach("H13d.end")
}
