//go:build verif

package verifstack

import (
	"bytes"
	"context"
	"errors"
	"io"
	"path"
	"syscall"

	"github.com/glebziz/fs_db"
	"github.com/glebziz/fs_db/internal/verifenv"
	nd "github.com/glebziz/fs_db/internal/verifnd"
)

// pieceReader hands out one piece per Read call (so every piece becomes one Write of the copy
// loop) and can fail before piece failAt.
type pieceReader struct {
	pieces [][]byte
	next   int
	failAt int
	// withData: the failing Read hands out piece failAt TOGETHER with the error (n > 0 and a
	// non-EOF error in one call, once; afterwards the reader reports io.EOF)
	withData bool
	failed   bool
}

var errSource = errors.New("source reader failed")

func (r *pieceReader) Read(p []byte) (int, error) {
	if r.failed {
		return 0, io.EOF
	}
	if r.next == r.failAt {
		if r.withData && r.next < len(r.pieces) {
			r.failed = true
			n := copy(p, r.pieces[r.next])
			r.next++
			return n, errSource
		}
		return 0, errSource
	}
	if r.next >= len(r.pieces) {
		return 0, io.EOF
	}
	n := copy(p, r.pieces[r.next])
	r.next++
	return n, nil
}

// VerifH10a: a write that fails leaves no trace, a write reported successful is complete, and a
// root that runs out of space mid-write hands over to a root with more free space.
func VerifH10a() {
	nd.SetPreemptionBound(0)
	roots := []string{"r1", "r2"}
	cfg := stdConfig(roots...)
	for _, r := range roots {
		verifenv.Free[r] = nd.U64("free")
	}
	w := newWorld(cfg, []string{"a"})
	if nd.Choice("pre-value", 2) == 1 {
		if w.doSet(0, "a", w.freshVal(), 0) != nil {
			nd.Assume(false) // no root has room: nothing to set up
		}
	}
	// the content: 1..3 pieces of 1..2 symbolic bytes
	np := 1 + nd.Choice("pieces", 3)
	var pieces [][]byte
	var whole []byte
	for i := 0; i < np; i++ {
		pc := nd.Bytes("piece", 1+nd.Choice("piece-len", 2))
		pieces = append(pieces, pc)
		whole = append(whole, pc...)
	}
	src := &pieceReader{pieces: pieces, failAt: -1}
	// the fault
	fault := nd.Choice("fault", 5) // 0 none, 1 source fails, 2 no-space on one root, 3 no-space on every root, 4 version record write fails
	failRoot := ""
	switch fault {
	case 1:
		src.failAt = nd.Choice("source-fails-before-piece", np+1)
		src.withData = src.failAt < np && nd.Choice("error-delivered-with-the-piece", 2) == 1
	case 2, 3:
		if fault == 2 {
			failRoot = roots[nd.Choice("failing-root", 2)]
		}
		atWrite := nd.Choice("failing-write", np)
		seen := map[string]int{}
		hit := map[string]bool{}
		verifenv.FS.OnWrite = func(p string, n int) (int, error) {
			root := path.Dir(path.Dir(p))
			if (failRoot != "" && root != failRoot) || hit[root] {
				return n, nil
			}
			k := seen[root]
			seen[root] = k + 1
			if k != atWrite {
				return n, nil
			}
			hit[root] = true
			// the device accepts a strict prefix of the buffer, then reports no space
			return nd.Choice("bytes-accepted", n), syscall.ENOSPC
		}
	case 4:
		cnt := 0
		verifenv.KV.OnCommit = func() error {
			cnt++
			if cnt == 1+nd.Choice("failing-kv-write", 2) {
				return errors.New("kv write failed")
			}
			return nil
		}
	}
	var err error
	api := nd.Choice("api", 3)
	if api == 0 {
		err = w.d.SetReader(ctx, "a", src)
	} else if api == 2 {
		// Set([]byte): the source is a *bytes.Reader, which also implements io.WriterTo
		if src.failAt >= 0 {
			nd.Assume(false)
		}
		err = w.d.Set(ctx, "a", whole)
	} else {
		f, cerr := w.d.Create(ctx, "a")
		nd.Assert(cerr == nil, "H10a.create")
		for _, pc := range pieces {
			if _, werr := f.Write(pc); werr != nil && err == nil {
				err = werr
			}
		}
		if cerr := f.Close(); err == nil {
			err = cerr
		}
		if src.failAt >= 0 {
			nd.Assume(false) // the source-reader fault applies to SetReader only
		}
	}
	verifenv.FS.OnWrite, verifenv.KV.OnCommit = nil, nil
	if err == nil {
		// reported successful => complete
		w.vs = append(w.vs, rver{key: "a", val: whole, owner: 0, pos: w.tick()})
		nd.Reach("H10a.success")
	} else {
		nd.Reach("H10a.failure")
		if fault == 3 {
			nd.Assert(errors.Is(err, fs_db.ErrNoFreeSpace), "H10a.no-space-class")
		}
	}
	if fault == 0 {
		nd.Assert(nd.Implies(nd.Or(verifenv.Free["r1"] > 0, verifenv.Free["r2"] > 0), err == nil), "H10a.fault-free-success")
	}
	if fault == 2 {
		other := "r1"
		if failRoot == "r1" {
			other = "r2"
		}
		// the other root reports more free space: the write continues there and succeeds
		nd.Assert(nd.Implies(verifenv.Free[other] > verifenv.Free[failRoot], err == nil), "H10a.continues-on-root-with-more-space")
	}
	w.checkReads("H10a.after")
	nd.Reach("H10a.end")
}

// VerifH10b: the same through the gRPC client over the loop-back transport, with the stream
// breaking (the server's Recv fails with a non-EOF error: connection lost, client cancelled)
// after a symbolic number of messages.
func VerifH10b() {
	nd.SetPreemptionBound(0)
	concreteCounter = true
	cfg := stdConfig()
	w := &world{cfg: cfg, keys: []string{"a"}, txs: []*rtx{nil}, vlen: 1}
	var lc *loopClient
	w.d, w.c, lc = openExternal(cfg)
	if nd.Choice("pre-value", 2) == 1 {
		nd.Assert(w.doSet(0, "a", w.freshVal(), 0) == nil, "H10b.pre")
	}
	// content long enough for several chunks of the stream writer (2048 bytes each)
	n := []int{1, 2049, 4097}[nd.Choice("len", 3)]
	val := nd.Bytes("content", n)
	chunks := (n + 2047) / 2048
	// messages on the stream: header + chunks; the break happens after 0..messages of them
	lc.recvFailAfter = nd.Choice("stream-breaks-after", chunks+2)
	if lc.recvFailAfter == chunks+1 {
		lc.recvFailAfter = -1 // no fault
	}
	var err error
	switch nd.Choice("api", 3) {
	case 0:
		err = w.d.Set(ctx, "a", val)
	case 1:
		err = w.d.SetReader(ctx, "a", bytes.NewReader(val))
	default:
		f, cerr := w.d.Create(ctx, "a")
		nd.Assert(cerr == nil, "H10b.create")
		_, err = f.Write(val)
		if cerr := f.Close(); err == nil {
			err = cerr
		}
	}
	lc.recvFailAfter = -1
	if err == nil {
		w.vs = append(w.vs, rver{key: "a", val: val, owner: 0, pos: w.tick()})
		nd.Reach("H10b.success")
	} else {
		nd.Reach("H10b.failure")
	}
	w.checkReads("H10b.after")
	nd.Reach("H10b.end")
}

// VerifH10c: the hand-over repeated. Three roots, two of them run out of space mid-write (each
// at its own write and after its own accepted prefix), the third has room; if the third reports
// more free space than both failing ones the write must get there - through one or two
// hand-overs, whatever order the roots are tried in - and store the source bytes exactly.
func VerifH10c() {
	nd.SetPreemptionBound(0)
	concreteCounter = true
	roots := []string{"r1", "r2", "r3"}
	cfg := stdConfig(roots...)
	for _, r := range roots {
		verifenv.Free[r] = nd.U64("free")
	}
	w := newWorld(cfg, []string{"a"})
	np := 1 + nd.Choice("pieces", 2)
	var pieces [][]byte
	var whole []byte
	for i := 0; i < np; i++ {
		pc := nd.Bytes("piece", 1+nd.Choice("piece-len", 2))
		pieces = append(pieces, pc)
		whole = append(whole, pc...)
	}
	good := roots[nd.Choice("root-with-room", 3)]
	atWrite := map[string]int{}
	for _, r := range roots {
		if r != good {
			atWrite[r] = nd.Choice("failing-write", np)
		}
	}
	seen := map[string]int{}
	hit := map[string]bool{}
	verifenv.FS.OnWrite = func(p string, n int) (int, error) {
		root := path.Dir(path.Dir(p))
		if root == good || hit[root] {
			return n, nil
		}
		k := seen[root]
		seen[root] = k + 1
		if k != atWrite[root] {
			return n, nil
		}
		hit[root] = true
		return nd.Choice("bytes-accepted", n), syscall.ENOSPC
	}
	var err error
	switch nd.Choice("api", 3) {
	case 0:
		err = w.d.SetReader(ctx, "a", &pieceReader{pieces: pieces, failAt: -1})
	case 1:
		err = w.d.Set(ctx, "a", whole)
	default:
		f, cerr := w.d.Create(ctx, "a")
		nd.Assert(cerr == nil, "H10c.create")
		for _, pc := range pieces {
			if _, werr := f.Write(pc); werr != nil && err == nil {
				err = werr
			}
		}
		if cerr := f.Close(); err == nil {
			err = cerr
		}
	}
	verifenv.FS.OnWrite = nil
	more := true
	for _, r := range roots {
		if r != good {
			more = nd.And(more, verifenv.Free[good] > verifenv.Free[r])
		}
	}
	nd.Assert(nd.Implies(more, err == nil), "H10c.continues-through-two-handovers")
	if err == nil {
		w.vs = append(w.vs, rver{key: "a", val: whole, owner: 0, pos: w.tick()})
		nd.Reach("H10c.success")
	} else {
		nd.Reach("H10c.failure")
	}
	w.checkReads("H10c.after")
	nd.Reach("H10c.end")
}

// cancellingReader cancels the caller's context before its at-th Read and goes on reading.
type cancellingReader struct {
	r      io.Reader
	n, at  int
	cancel func()
}

func (c *cancellingReader) Read(p []byte) (int, error) {
	if c.n == c.at {
		c.cancel()
	}
	c.n++
	return c.r.Read(p)
}

// VerifH10d: the source reader of SetReader fails, or the caller's context is cancelled mid-upload,
// through the gRPC client. The client must not
// complete the upload with the bytes sent so far: SetReader returns an error and the key keeps
// the value it had before. (Sources of 1-3 pieces around the chunk size of the stream writer, so
// that the failure falls before the first chunk, between chunks, or with a tail buffered.)
func VerifH10d() {
	nd.SetPreemptionBound(0)
	concreteCounter = true
	cfg := stdConfig()
	w := &world{cfg: cfg, keys: []string{"a"}, txs: []*rtx{nil}, vlen: 1}
	var lc *loopClient
	w.d, w.c, lc = openExternal(cfg)
	if nd.Choice("pre-value", 2) == 1 {
		nd.Assert(w.doSet(0, "a", w.freshVal(), 0) == nil, "H10d.pre")
	}
	np := 1 + nd.Choice("pieces", 3)
	var pieces [][]byte
	var whole []byte
	for i := 0; i < np; i++ {
		pc := nd.Bytes("piece", []int{1, 2047, 2049}[nd.Choice("piece-len", 3)])
		pieces = append(pieces, pc)
		whole = append(whole, pc...)
	}
	// the fault: none | the source fails before piece i | the caller's context is cancelled before
	// piece i is read (i == np: before the end of the source is seen), the source itself goes on
	fault := nd.Choice("fault", 3)
	src := &pieceReader{pieces: pieces, failAt: -1}
	cctx, cancel := context.WithCancel(ctx)
	var rd io.Reader = src
	switch fault {
	case 1:
		src.failAt = nd.Choice("source-fails-before-piece", np+1)
	case 2:
		rd = &cancellingReader{r: src, at: nd.Choice("cancelled-before-read", np+1), cancel: cancel}
	}
	err := w.d.SetReader(cctx, "a", rd)
	cancel()
	lc.finishAbandoned()
	if fault == 1 {
		nd.Assert(err != nil, "H10d.source-failure-reported")
	}
	if fault == 0 {
		nd.Assert(err == nil, "H10d.fault-free-success")
	}
	if err != nil {
		nd.Reach("H10d.failure")
	} else {
		// reported successful => complete
		w.vs = append(w.vs, rver{key: "a", val: whole, owner: 0, pos: w.tick()})
		nd.Reach("H10d.success")
	}
	w.checkReads("H10d.after")
	nd.Reach("H10d.end")
}

// VerifH10e: hand-over to a root whose directory is being rotated. Two roots; the directory of one
// or both of them has reached the limit (it is replaced by a fresh one in this very Set); the
// write runs out of space on r1 mid-file or not at all. A root that reports more free space than
// the failing one takes the write over and it succeeds - the fresh directory carries its root's
// free space - and without a fault the write succeeds whenever some root has room.
func VerifH10e() {
	nd.SetPreemptionBound(0)
	concreteCounter = true
	roots := []string{"r1", "r2"}
	cfg := stdConfig(roots...)
	for _, r := range roots {
		verifenv.Free[r] = nd.U64("free")
	}
	full := nd.Choice("directories-at-the-limit", 3) // 0: r2's, 1: r1's, 2: both
	dirs := map[string]bool{}
	if full != 1 {
		dirs["r2/aaaaaaaa-aaaa-4aaa-8aaa-aaaaaaaaaaa2"] = true
	}
	if full != 0 {
		dirs["r1/aaaaaaaa-aaaa-4aaa-8aaa-aaaaaaaaaaa1"] = true
	}
	for d := range dirs {
		verifenv.FS.PutDir(d)
	}
	verifenv.ExtraEntries = func(dir string) uint64 {
		if dirs[dir] {
			return 100
		}
		return 0
	}
	w := newWorld(cfg, []string{"a"})
	np := 1 + nd.Choice("pieces", 2)
	var pieces [][]byte
	var whole []byte
	for i := 0; i < np; i++ {
		pc := nd.Bytes("piece", 1+nd.Choice("piece-len", 2))
		pieces = append(pieces, pc)
		whole = append(whole, pc...)
	}
	fault := nd.Choice("r1-runs-full", 2) == 1
	if fault {
		atWrite := nd.Choice("failing-write", np)
		seen, hit := 0, false
		verifenv.FS.OnWrite = func(p string, n int) (int, error) {
			if path.Dir(path.Dir(p)) != "r1" || hit {
				return n, nil
			}
			k := seen
			seen++
			if k != atWrite {
				return n, nil
			}
			hit = true
			return nd.Choice("bytes-accepted", n), syscall.ENOSPC
		}
	}
	err := w.d.SetReader(ctx, "a", &pieceReader{pieces: pieces, failAt: -1})
	verifenv.FS.OnWrite = nil
	verifenv.ExtraEntries = nil
	if fault {
		nd.Assert(nd.Implies(verifenv.Free["r2"] > verifenv.Free["r1"], err == nil), "H10e.continues-on-the-root-whose-directory-was-rotated")
	} else {
		nd.Assert(nd.Implies(nd.Or(verifenv.Free["r1"] > 0, verifenv.Free["r2"] > 0), err == nil), "H10e.fault-free-success-while-a-directory-is-rotated")
	}
	if err == nil {
		w.vs = append(w.vs, rver{key: "a", val: whole, owner: 0, pos: w.tick()})
		nd.Reach("H10e.success")
	}
	w.checkReads("H10e.after")
	nd.Reach("H10e.end")
}
