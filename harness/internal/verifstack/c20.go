//go:build verif

package verifstack

import (
	"errors"
	"time"

	"github.com/glebziz/fs_db"
	"github.com/glebziz/fs_db/internal/di"
	"github.com/glebziz/fs_db/internal/utils/wpool"
	nd "github.com/glebziz/fs_db/internal/verifnd"
	"github.com/glebziz/fs_db/pkg/inline"
	inlinedb "github.com/glebziz/fs_db/pkg/inline/db"
)

// VerifH20c: validation takes effect where the configuration is used. The inline client is opened
// with an arbitrary directory limit and optionally without a database path or without roots: the
// documented errors come back, and otherwise the running store works with the limit raised to at
// least 100 (the configuration its components are built from is the validated one).
func VerifH20c() {
	nd.SetPreemptionBound(0)
	concreteCounter = true
	nd.SetMode("seqpool", true)
	cfg := stdConfig()
	pre := nd.U64("maxdir")
	cfg.Storage.MaxDirCount = pre
	missing := nd.Choice("missing", 3)
	switch missing {
	case 1:
		cfg.Storage.DbPath = ""
	case 2:
		cfg.Storage.RootDirs = nil
	}
	d, err := inline.Open(ctx, cfg)
	switch missing {
	case 1:
		nd.Assert(errors.Is(err, fs_db.ErrEmptyDbPath), "H20c.empty-dbpath-rejected-at-open")
	case 2:
		nd.Assert(errors.Is(err, fs_db.ErrEmptyRootDirs), "H20c.empty-roots-rejected-at-open")
	default:
		nd.Assert(err == nil, "H20c.open")
		if err != nil {
			return
		}
		eff := di.VerifConfig(inlinedb.VerifContainer(d)).Storage.MaxDirCount
		nd.Assert(eff == nd.IteU64(pre < 100, 100, pre), "H20c.validated-limit-reaches-the-running-store")
		nd.Assert(d.Set(ctx, "a", []byte("x")) == nil, "H20c.usable")
	}
	nd.Reach("H20c.end")
}

// VerifH16e: the worker pool is built from the configured options. Through the real
// dependency-injection container: the pool's worker count and its send duration (the time Send
// waits for a free slot before it defers the job) are the configured values, raised to the pool's
// minima - a Send that waits a thousand times longer is not "prompt".
func VerifH16e() {
	cfg := stdConfig()
	// concrete candidates (a symbolic duration multiplied by a unit constant ran into a
	// disagreement between the solver's model and the engine's evaluator: DESIGN 0.5)
	nw := []int{1, 4, 16}[nd.Choice("workers", 3)]
	sd := []time.Duration{time.Millisecond, 250 * time.Millisecond, 2 * time.Second}[nd.Choice("send-duration", 3)]
	cfg.WPool.NumWorkers = nw
	cfg.WPool.SendDuration = sd
	o := wpool.VerifOptions(di.New(cfg).Pool())
	nd.Assert(o.NumWorkers == nw, "H16e.workers-as-configured")
	nd.Assert(o.SendDuration == sd, "H16e.send-duration-as-configured")
	nd.Reach("H16e.end")
}
