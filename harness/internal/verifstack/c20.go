//go:build verif

package verifstack

import (
	"errors"

	"github.com/glebziz/fs_db"
	"github.com/glebziz/fs_db/internal/di"
	nd "github.com/glebziz/fs_db/internal/verifnd"
	"github.com/glebziz/fs_db/pkg/inline"
	inlinedb "github.com/glebziz/fs_db/pkg/inline/db"
)

// VerifH20c: validation takes effect where the configuration is used. The inline client is opened
// with an arbitrary directory limit and optionally without a database path or without roots: the
// documented errors come back, and otherwise the running store works with the limit raised to at
// least 100 (the configuration its components are built from is the validated one).
func VerifH20c() {
	nd.SetPreemptionBound(0)
	concreteCounter = true
	nd.SetMode("seqpool", true)
	cfg := stdConfig()
	pre := nd.U64("maxdir")
	cfg.Storage.MaxDirCount = pre
	missing := nd.Choice("missing", 3)
	switch missing {
	case 1:
		cfg.Storage.DbPath = ""
	case 2:
		cfg.Storage.RootDirs = nil
	}
	d, err := inline.Open(ctx, cfg)
	switch missing {
	case 1:
		nd.Assert(errors.Is(err, fs_db.ErrEmptyDbPath), "H20c.empty-dbpath-rejected-at-open")
	case 2:
		nd.Assert(errors.Is(err, fs_db.ErrEmptyRootDirs), "H20c.empty-roots-rejected-at-open")
	default:
		nd.Assert(err == nil, "H20c.open")
		if err != nil {
			return
		}
		eff := di.VerifConfig(inlinedb.VerifContainer(d)).Storage.MaxDirCount
		nd.Assert(eff == nd.IteU64(pre < 100, 100, pre), "H20c.validated-limit-reaches-the-running-store")
		nd.Assert(d.Set(ctx, "a", []byte("x")) == nil, "H20c.usable")
	}
	nd.Reach("H20c.end")
}
