//go:build verif

package verifstack

import (
	"errors"
	"path"

	"github.com/google/uuid"

	"github.com/glebziz/fs_db"
	"github.com/glebziz/fs_db/internal/verifenv"
	nd "github.com/glebziz/fs_db/internal/verifnd"
)

var c17Dirs = []string{
	"aaaaaaaa-aaaa-4aaa-8aaa-aaaaaaaaaaa1", "aaaaaaaa-aaaa-4aaa-8aaa-aaaaaaaaaaa2",
	"bbbbbbbb-bbbb-4bbb-8bbb-bbbbbbbbbbb1", "bbbbbbbb-bbbb-4bbb-8bbb-bbbbbbbbbbb2",
}

// c17Setup builds an arbitrary directory state left by earlier runs (UUID directories with a
// symbolic number of entries each, stray entries), symbolic free space per root and a symbolic
// directory limit, and opens the database over it.
type c17 struct {
	w     *world
	roots []string
	extra map[string]uint64
	max   uint64
}

func c17Setup(nroots int, existing []int) *c17 {
	roots := []string{"r1", "r2"}[:nroots]
	// the roots may be spelled in a non-canonical form in the configuration
	spelled := append([]string{}, roots...)
	switch nd.Choice("root-spelling", 3) {
	case 1:
		spelled[0] = "./r1"
	case 2:
		spelled[0] = "r1/"
	}
	cfg := stdConfig(spelled...)
	cfg.Storage.MaxDirCount = nd.U64("maxDirCount")
	c := &c17{roots: roots, extra: map[string]uint64{}}
	for i, r := range roots {
		verifenv.FS.PutDir(r)
		for j := 0; j < existing[i]; j++ {
			d := path.Join(r, c17Dirs[2*i+j])
			verifenv.FS.PutDir(d)
			c.extra[d] = nd.U64("entries")
		}
		verifenv.FS.PutFile(path.Join(r, "README"), []byte("x"))
		verifenv.FS.PutDir(path.Join(r, "not-a-uuid"))
		verifenv.Free[r] = nd.U64("free")
	}
	verifenv.ExtraEntries = func(dir string) uint64 { return c.extra[dir] }
	c.w = newWorld(cfg, []string{"a", "b"})
	c.max = nd.IteU64(cfg.Storage.MaxDirCount < 100, 100, cfg.Storage.MaxDirCount) // the documented clamp
	// inductive hypothesis: no directory exceeds the limit before the step
	for d := range c.extra {
		nd.Assume(nd.And(c.extra[d] <= c.max, c.extra[d] < 1<<62))
	}
	return c
}

func (c *c17) count(d string) uint64 { return uint64(len(verifenv.FS.Children(d))) + c.extra[d] }

func (c *c17) isRoot(r string) bool {
	for _, x := range c.roots {
		if x == r {
			return true
		}
	}
	return false
}

// set performs one Set and checks where the content went.
func (c *c17) set(key string) {
	w := c.w
	before := map[string]uint64{}
	for _, r := range c.roots {
		for _, ch := range verifenv.FS.Children(r) {
			before[path.Join(r, ch)] = c.count(path.Join(r, ch))
		}
	}
	ncreated := len(verifenv.FS.Creates)
	err := w.doSet(0, key, w.freshVal(), 0)
	if err != nil {
		nd.Assert(errors.Is(err, fs_db.ErrNoFreeSpace), "H17.set-error-class")
		for _, r := range c.roots {
			nd.Assert(verifenv.Free[r] == 0, "H17.no-space-only-when-no-root-has-room")
		}
		nd.Reach("H17.no-space")
		return
	}
	nd.Assert(len(verifenv.FS.Creates) == ncreated+1, "H17.one-file-created")
	if len(verifenv.FS.Creates) != ncreated+1 {
		return
	}
	f := verifenv.FS.Creates[ncreated]
	d := path.Dir(f)
	nd.Assert(c.isRoot(path.Dir(d)), "H17.file-in-dir-in-configured-root")
	nd.Assert(uuid.Validate(path.Base(d)) == nil && uuid.Validate(path.Base(f)) == nil, "H17.uuid-names")
	nd.Assert(verifenv.Free[path.Dir(d)] > 0, "H17.chosen-root-has-room")
	if b, existed := before[d]; existed {
		nd.Assert(b < c.max, "H17.chosen-directory-was-below-limit")
		nd.Reach("H17.existing-directory")
	} else {
		nd.Reach("H17.fresh-directory")
	}
}

// invariants: repository counters equal the active directories; no content directory is over the limit.
func (c *c17) invariants() {
	active, counts := c.w.c.DirRepo().VerifActive()
	for _, r := range c.roots {
		n := uint64(0)
		for _, d := range active {
			if d.Root == r {
				n++
				nd.Assert(verifenv.FS.IsDir(path.Join(d.Root, d.Name)), "H17.active-dir-exists")
			}
		}
		nd.Assert(counts[r] == n, "H17.counts-equal-active")
		for _, ch := range verifenv.FS.Children(r) {
			d := path.Join(r, ch)
			if verifenv.FS.IsDir(d) && uuid.Validate(ch) == nil {
				nd.Assert(c.count(d) <= c.max, "H17.directory-over-limit")
			}
		}
	}
}

// offers: after dir.Get every root offers at least one directory, each with room.
func (c *c17) offers() {
	offered, err := c.w.c.Dir().Get(ctx)
	nd.Assert(err == nil, "H17.dir-get-ok")
	for _, d := range offered {
		// a candidate carries the free space of its root (a directory that regained room must
		// be eligible again, not silently carry 0)
		nd.Assert(c.isRoot(path.Clean(d.Root)), "H17.offered-directory-in-configured-root")
		nd.Assert(d.Free == verifenv.Free[path.Clean(d.Root)], "H17.offered-directory-carries-root-free-space")
	}
	active, _ := c.w.c.DirRepo().VerifActive()
	for _, r := range c.roots {
		n := 0
		for _, d := range active {
			if d.Root == r {
				n++
				nd.Assert(c.count(path.Join(d.Root, d.Name)) < c.max, "H17.offered-directory-has-room")
			}
		}
		nd.Assert(n >= 1, "H17.every-root-offers-a-directory")
	}
}

var c17Configs = []struct {
	roots    int
	existing []int
}{{1, []int{0}}, {1, []int{1}}, {1, []int{2}}, {2, []int{0, 0}}, {2, []int{1, 1}}, {2, []int{2, 0}}}

// VerifH17: the inductive step. Arbitrary directory state (symbolic entry counts within the limit,
// symbolic limit, symbolic free space), one write, every shuffle order; then the invariants.
func VerifH17() {
	cf := c17Configs[nd.Choice("config", len(c17Configs))]
	c := c17Setup(cf.roots, cf.existing)
	c.set("a")
	c.invariants()
	c.w.checkReads("H17")
	c.offers()
	c.invariants()
	nd.Reach("H17.end")
}

// VerifH17b: directories that regain room through deletions are used again: a directory at the
// limit is rotated out; after one of its contents is deleted and collected it is active again and
// receives the next write.
func VerifH17b() {
	c := c17Setup(1, []int{1})
	d0 := path.Join("r1", c17Dirs[0])
	nd.Assume(verifenv.Free["r1"] > 0)
	c.set("a")
	c.invariants()
	where := path.Dir(verifenv.FS.Creates[len(verifenv.FS.Creates)-1])
	// overwrite, collect and clean: the first content goes away
	c.set("a")
	c.w.gc("H17b")
	verifenv.RunJobs()
	c.invariants()
	active, _ := c.w.c.DirRepo().VerifActive()
	found := false
	for _, d := range active {
		if path.Join(d.Root, d.Name) == where {
			found = true
		}
	}
	nd.Assert(found, "H17b.parent-of-deleted-content-is-active-again")
	_ = d0
	c.set("b")
	c.invariants()
	c.w.checkReads("H17b")
	c.offers()
	nd.Reach("H17b.end")
}

// VerifH17c: a directory that regains room twice. Directory A fills up and is rotated out; a
// deletion in it puts it back; it is written to, fills up and is rotated out again; a second
// deletion in it must put it back again (whatever the registry remembers about the first time).
func VerifH17c() {
	nd.SetPreemptionBound(0)
	concreteCounter = true
	w := newWorld(stdConfig("r1"), []string{"a", "b", "c", "d"})
	isActive := func(dir string) bool {
		active, _ := w.c.DirRepo().VerifActive()
		for _, d := range active {
			if d.Path() == dir {
				return true
			}
		}
		return false
	}
	full := ""
	verifenv.ExtraEntries = func(dir string) uint64 {
		if dir == full {
			return 100
		}
		return 0
	}
	nd.Assert(w.doSet(0, "a", w.freshVal(), 0) == nil, "H17c.write")
	kids := verifenv.FS.Children("r1")
	nd.Assert(len(kids) == 1, "H17c.first-directory")
	if len(kids) != 1 {
		return
	}
	A := "r1/" + kids[0]
	// A fills up: the next write rotates it out
	full = A
	nd.Assert(w.doSet(0, "b", w.freshVal(), 0) == nil, "H17c.rotating-write")
	nd.Assert(!isActive(A), "H17c.full-directory-rotated-out")
	// A regains room; the version in it is superseded and collected: A is back
	full = ""
	nd.Assert(w.doSet(0, "a", w.freshVal(), 0) == nil, "H17c.overwrite")
	w.gc("H17c")
	verifenv.RunJobs()
	nd.Assert(isActive(A), "H17c.directory-with-room-again-is-offered-again")
	// a write lands in A (only those orders are followed), A fills up and is rotated out again
	nd.Assert(w.doSet(0, "d", w.freshVal(), 0) == nil, "H17c.write-d")
	inA := false
	for _, f := range verifenv.FS.Files("r1") {
		if path.Dir(f) == A {
			inA = true
		}
	}
	if !inA {
		nd.Assume(false)
	}
	full = A
	nd.Assert(w.doSet(0, "c", w.freshVal(), 0) == nil, "H17c.second-rotating-write")
	nd.Assert(!isActive(A), "H17c.full-directory-rotated-out-again")
	// the second deletion in A
	full = ""
	nd.Assert(w.doSet(0, "d", w.freshVal(), 0) == nil, "H17c.overwrite-d")
	w.gc("H17c")
	verifenv.RunJobs()
	nd.Assert(isActive(A), "H17c.directory-with-room-again-is-offered-again-the-second-time")
	verifenv.ExtraEntries = nil
	w.checkReads("H17c.reads")
	nd.Reach("H17c.end")
}
