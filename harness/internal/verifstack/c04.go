//go:build verif

package verifstack

import (
	"github.com/glebziz/fs_db"
	"github.com/glebziz/fs_db/internal/model"
	"github.com/glebziz/fs_db/internal/model/sequence"
	"github.com/glebziz/fs_db/internal/verifenv"
	nd "github.com/glebziz/fs_db/internal/verifnd"
)

// committedView: per key, what an autocommit Get must return given a list of versions, looking
// at committed versions only (after a crash every open transaction is gone).
func committedView(vs []rver, keys []string) ([]bool, [][]byte) {
	found := make([]bool, len(keys))
	vals := make([][]byte, len(keys))
	for i, k := range keys {
		best := -1
		for j := range vs {
			if vs[j].owner == 0 && vs[j].key == k && (best < 0 || vs[j].pos > vs[best].pos) {
				best = j
			}
		}
		if best >= 0 && !vs[best].del {
			found[i], vals[i] = true, vs[best].val
		}
	}
	return found, vals
}

// applyPending: the committed state if the operation in flight at the crash had completed.
func (w *world) applyPending() []rver {
	out := append([]rver{}, w.vs...)
	p := w.pend
	if p == nil {
		return out
	}
	switch p.kind {
	case 0:
		if p.t == 0 {
			out = append(out, rver{key: p.key, val: p.val, owner: 0, pos: 1 << 30})
		}
	case 1:
		if p.t == 0 {
			out = append(out, rver{key: p.key, del: true, owner: 0, pos: 1 << 30})
		}
	case 2:
		tx := w.txs[p.t]
		last := map[string]rver{}
		var wkeys []string
		for _, v := range w.vs {
			if v.owner == p.t {
				if _, ok := last[v.key]; !ok {
					wkeys = append(wkeys, v.key)
				}
				last[v.key] = v
			}
		}
		conflict := false
		if tx.level >= fs_db.IsoLevelRepeatableRead {
			for _, k := range wkeys {
				if mn, ok := w.lastOf(0, k); ok && mn.pos > tx.beginPos {
					conflict = true
				}
			}
		}
		if !conflict {
			for i, k := range wkeys {
				v := last[k]
				v.owner = 0
				v.pos = 1<<30 + i
				out = append(out, v)
			}
		}
	}
	return out
}

// readState reads every key through a freshly opened database.
func (w *world) readState(id string) ([]bool, [][]byte) {
	found := make([]bool, len(w.keys))
	vals := make([][]byte, len(w.keys))
	for i, k := range w.keys {
		b, err := w.d.Get(ctx, k)
		if err == nil {
			found[i], vals[i] = true, b
		} else {
			nd.Assert(isNotFound(err), id+".read-error-class")
		}
	}
	// every key GetKeys lists is readable, and it lists exactly the readable keys
	keys, err := w.d.GetKeys(ctx)
	nd.Assert(err == nil, id+".getkeys-ok")
	n := 0
	for i := range w.keys {
		if found[i] {
			n++
		}
	}
	nd.Assert(len(keys) == n, id+".getkeys-lists-exactly-the-readable-keys")
	return found, vals
}

func sameState(f1 []bool, v1 [][]byte, f2 []bool, v2 [][]byte) bool {
	eq := true
	for i := range f1 {
		if f1[i] != f2[i] {
			return false
		}
		if f1[i] {
			eq = nd.And(eq, nd.EqBytes(v1[i], v2[i]))
		}
	}
	return eq
}

func newProcess() {
	verifenv.Restart()
	sequence.VerifSetCounter(0)
}

// VerifH04: a crash at any persistent mutation loses nothing acknowledged and exposes nothing
// uncommitted; the operation in flight is visible entirely or not at all; recovery is idempotent,
// also when it is itself interrupted.
func VerifH04() {
	k := histSteps(2, 3)
	nd.Bound("H04.steps", k)
	concreteCounter = true // the counter's role across restarts is C05's subject
	verifenv.TornWrites = true
	w := newWorld(stdConfig(), []string{"a", "ключ"}) // the second key is not ASCII: records carry keys as bytes
	w.vlen = 2                                        // two-byte contents: a crash can tear them
	a := alpha{tx: true, gc: true, drain: true, maxTx: 1, levels: []model.TxIsoLevel{fs_db.IsoLevelReadCommitted, fs_db.IsoLevelSerializable}}
	w.stepKeys = []string{"a"} // the workload writes key a; key b is written by the prepared transaction only
	// a pre-state with history: optionally a committed value, optionally a transaction that has
	// already written one or both keys (its records are durable but uncommitted)
	switch nd.Choice("pre-committed", 3) {
	case 1:
		nd.Assert(w.doSet(0, "a", w.freshVal(), 0) == nil, "H04.pre")
	case 2: // two versions: the durable sequence numbers are ahead of a fresh process's counter
		nd.Assert(w.doSet(0, "a", w.freshVal(), 0) == nil, "H04.pre")
		nd.Assert(w.doSet(0, "a", w.freshVal(), 0) == nil, "H04.pre")
	}
	switch nd.Choice("pre-tx", 3) {
	case 1:
		t := w.begin(a.levels[nd.Choice("level", 2)])
		nd.Assert(w.doSet(t, "a", w.freshVal(), 0) == nil, "H04.pre-tx")
	case 2:
		t := w.begin(a.levels[nd.Choice("level", 2)])
		nd.Assert(w.doSet(t, "a", w.freshVal(), 0) == nil, "H04.pre-tx")
		nd.Assert(w.doSet(t, "ключ", w.freshVal(), 0) == nil, "H04.pre-tx")
	}
	// the workload may run in the process that built the pre-state, or in a later one
	if len(w.openTxs()) == 0 && nd.Choice("workload-in-a-later-process", 2) == 1 {
		nd.Assert(w.d.Close() == nil, "H04.pre-close")
		newProcess()
		w.d, w.c = openSeq(w.cfg)
		nd.Reach("H04.later-process")
	}
	crashed := nd.RunCrashable(func() {
		for i := 0; i < k; i++ {
			w.step(a, "H04")
		}
	})
	if !crashed {
		nd.Reach("H04.no-crash")
	} else {
		nd.Reach("H04.crashed")
	}
	// the acknowledged prefix, and the same with the operation in flight completed
	ackF, ackV := committedView(w.vs, w.keys)
	allF, allV := committedView(w.applyPending(), w.keys)
	// recovery by a new process; it may itself be interrupted
	newProcess()
	crashed2 := nd.RunCrashable(func() {
		w.d, w.c = openSeq(w.cfg)
		verifenv.RunJobs()
	})
	if crashed2 {
		nd.Reach("H04.crash-in-recovery")
		newProcess()
		w.d, w.c = openSeq(w.cfg)
		verifenv.RunJobs()
	}
	f1, v1 := w.readState("H04.recovered")
	isAck := sameState(f1, v1, ackF, ackV)
	isAll := sameState(f1, v1, allF, allV)
	nd.Assert(nd.Or(isAck, isAll), "H04.recovered-state-is-acknowledged-prefix-with-inflight-all-or-nothing")
	// reopening again gives the same state
	nd.Assert(w.d.Close() == nil, "H04.close")
	newProcess()
	w.d, w.c = openSeq(w.cfg)
	verifenv.RunJobs()
	f2, v2 := w.readState("H04.reopened")
	nd.Assert(sameState(f1, v1, f2, v2), "H04.second-recovery-same-state")
	nd.Reach("H04.end")
}

// VerifH04b: acknowledged concurrent writes and a crash. Two goroutines overwrite the same key;
// both writes are acknowledged, a reader then sees one of them as the current value; the process
// dies and a new one recovers: the key must read as it did before the crash (the order in which
// the writes took effect in memory is the order recovery reproduces).
func VerifH04b() {
	P := 1
	if nd.Tier() == 1 {
		P = 2
	}
	nd.Bound("H04b.preemption_bound", P)
	concreteCounter = true
	w := newWorld(stdConfig(), []string{"a"})
	if nd.Choice("pre-value", 2) == 1 {
		nd.Assert(w.doSet(0, "a", w.freshVal(), 0) == nil, "H04b.pre")
	}
	v1, v2 := w.freshVal(), w.freshVal()
	del2 := nd.Choice("second-writer-deletes", 2) == 1
	var e1, e2 error
	nd.SpawnRunsFirst(P == 1) // with two preemptions both shapes are within the bound anyway
	nd.SetPreemptionBound(P)
	go func() {
		if del2 {
			e2 = w.d.Delete(ctx, "a")
		} else {
			e2 = w.d.Set(ctx, "a", v2)
		}
	}()
	e1 = w.d.Set(ctx, "a", v1)
	nd.JoinAll()
	nd.SetPreemptionBound(0)
	nd.Assert(e1 == nil && e2 == nil, "H04b.writes-acknowledged")
	f1, vals1 := w.readState("H04b.before-crash")
	newProcess()
	w.d, w.c = openSeq(w.cfg)
	verifenv.RunJobs()
	f2, vals2 := w.readState("H04b.recovered")
	nd.Assert(sameState(f1, vals1, f2, vals2), "H04b.acknowledged-concurrent-writes-recovered-in-their-order")
	nd.Reach("H04b.end")
}
