//go:build verif

package verifstack

import (
	"bytes"
	"errors"
	"fmt"

	"github.com/glebziz/fs_db"
	adapter "github.com/glebziz/fs_db/internal/adapter/errors"
	isoLevel "github.com/glebziz/fs_db/internal/adapter/iso_level"
	"github.com/glebziz/fs_db/internal/model"
	pb "github.com/glebziz/fs_db/internal/proto"
	"github.com/glebziz/fs_db/internal/verifenv"
	nd "github.com/glebziz/fs_db/internal/verifnd"
)

var sentinels = []error{fs_db.ErrNoFreeSpace, fs_db.ErrNotFound, fs_db.ErrEmptyKey, fs_db.ErrHeaderNotFound,
	fs_db.ErrTxNotFound, fs_db.ErrTxAlreadyExists, fs_db.ErrTxSerialization, fs_db.ErrUnknown}
var sentinelNames = []string{"ErrNoFreeSpace", "ErrNotFound", "ErrEmptyKey", "ErrHeaderNotFound", "ErrTxNotFound", "ErrTxAlreadyExists", "ErrTxSerialization", "ErrUnknown"}

// sameClass: both nil, or both non-nil and matching the same exported sentinels. An inline
// error that matches no sentinel at all corresponds to ErrUnknown on the wire.
func sameClass(in, ex error, id string) {
	nd.Assert((in == nil) == (ex == nil), id+".success-agrees")
	if in == nil || ex == nil {
		return
	}
	anyIn := false
	for i, s := range sentinels[:7] {
		a, b := errors.Is(in, s), errors.Is(ex, s)
		anyIn = anyIn || a
		nd.Assert(a == b, id+".class-"+sentinelNames[i])
	}
	if !anyIn {
		nd.Assert(errors.Is(ex, fs_db.ErrUnknown), id+".foreign-error-maps-to-ErrUnknown")
	}
}

func sameBytes(a, b []byte) bool { return nd.EqBytes(a, b) } // nil and empty are equal (length 0)

// pair drives the inline client (environment 0) and the external client (environment 1) in lock step.
type pair struct {
	in, ex     fs_db.DB
	txIn, txEx []fs_db.Tx
	keys       []string
}

func (p *pair) store(side, t int) fs_db.Store {
	if side == 0 {
		if t < 0 {
			return p.in
		}
		return p.txIn[t]
	}
	if t < 0 {
		return p.ex
	}
	return p.txEx[t]
}

// both runs f on both sides and returns the two results.
func both[T any](f func(side int) T) (T, T) {
	verifenv.Switch(0)
	a := f(0)
	verifenv.Switch(1)
	b := f(1)
	return a, b
}

type getRes struct {
	b   []byte
	err error
}

func (p *pair) compareReads(id string) {
	actors := []int{-1}
	for t := range p.txIn {
		if p.txIn[t] != nil {
			actors = append(actors, t)
		}
	}
	for _, t := range actors {
		for _, k := range p.keys {
			a, b := both(func(side int) getRes {
				v, err := p.store(side, t).Get(ctx, k)
				return getRes{v, err}
			})
			sameClass(a.err, b.err, id+".Get")
			if a.err == nil && b.err == nil {
				nd.Assert(sameBytes(a.b, b.b), id+".Get-content")
			}
			// GetReader
			ra, rb := both(func(side int) getRes {
				r, err := p.store(side, t).GetReader(ctx, k)
				if err != nil {
					return getRes{nil, err}
				}
				v, rerr := readAll(r)
				return getRes{v, rerr}
			})
			sameClass(ra.err, rb.err, id+".GetReader")
			if ra.err == nil && rb.err == nil {
				nd.Assert(sameBytes(ra.b, rb.b), id+".GetReader-content")
			}
		}
		type keysRes struct {
			k   []string
			err error
		}
		ka, kb := both(func(side int) keysRes {
			k, err := p.store(side, t).GetKeys(ctx)
			return keysRes{k, err}
		})
		sameClass(ka.err, kb.err, id+".GetKeys")
		nd.Assert(len(ka.k) == len(kb.k), id+".GetKeys-count")
		if len(ka.k) == len(kb.k) {
			for i := range ka.k {
				nd.Assert(ka.k[i] == kb.k[i], id+".GetKeys-list")
			}
		}
	}
}

var c11Lens = []int{1, 0, 2049, 2047, 2048, 4097}

// VerifH11a: the external client over the loop-back transport against the real server-side
// code, in lock step with the inline client: same values, same error classes.
func VerifH11a() {
	k, nl := 2, 3
	if nd.Tier() == 1 {
		nl = len(c11Lens) // three operations with all lengths did not finish in 40 minutes
	}
	nd.Bound("H11a.steps", k)
	nd.SetPreemptionBound(0)
	concreteCounter = true
	p := &pair{keys: []string{"a", "b"}}
	cfg := stdConfig()
	verifenv.Switch(0)
	p.in, _ = openSeq(cfg)
	verifenv.Switch(1)
	p.ex, _, _ = openExternal(cfg)
	// optionally a transaction is open from the start (saves one step of every history)
	if lv := nd.Choice("start-with-tx", 5); lv < 4 {
		a, b := both(func(side int) fs_db.Tx {
			var tx fs_db.Tx
			var err error
			if side == 0 {
				tx, err = p.in.Begin(ctx, model.TxIsoLevel(lv))
			} else {
				tx, err = p.ex.Begin(ctx, model.TxIsoLevel(lv))
			}
			nd.Assert(err == nil, "H11a.begin")
			return tx
		})
		p.txIn, p.txEx = append(p.txIn, a), append(p.txEx, b)
	}
	for i := 0; i < k; i++ {
		// actor: autocommit or an open transaction
		var open []int
		for t := range p.txIn {
			if p.txIn[t] != nil {
				open = append(open, t)
			}
		}
		t := -1
		if len(open) > 0 && nd.Choice("actor", 2) == 1 {
			t = open[nd.Choice("which-tx", len(open))]
		}
		op := nd.Choice("op", 6)
		id := "H11a"
		switch op {
		case 0, 1, 2: // Set / SetReader / Create
			key := []string{"a", "b", ""}[nd.Choice("key", 3)]
			val := nd.Bytes("val", c11Lens[nd.Choice("len", nl)])
			a, b := both(func(side int) error {
				st := p.store(side, t)
				switch op {
				case 0:
					return st.Set(ctx, key, val)
				case 1:
					if key == "b" {
						// short reads through io.Copy's reused buffer, the last one with io.EOF
						return st.SetReader(ctx, key, &dataEOFReader{b: val})
					}
					return st.SetReader(ctx, key, bytes.NewReader(val))
				}
				f, err := st.Create(ctx, key)
				if err != nil {
					return err
				}
				// both writes come from one scratch buffer, overwritten once Write has returned
				h := len(val) / 2
				scratch := make([]byte, len(val)-h)
				_, werr := f.Write(scratch[:copy(scratch, val[:h])])
				scribble(scratch)
				if werr == nil {
					_, werr = f.Write(scratch[:copy(scratch, val[h:])])
					scribble(scratch)
				}
				cerr := f.Close()
				if werr != nil {
					return werr
				}
				return cerr
			})
			sameClass(a, b, id+"."+[]string{"Set", "SetReader", "Create"}[op])
		case 3:
			key := []string{"a", "b"}[nd.Choice("key", 2)]
			a, b := both(func(side int) error { return p.store(side, t).Delete(ctx, key) })
			sameClass(a, b, id+".Delete")
		case 4: // Begin (a second transaction may observe the first one's uncommitted writes)
			if len(open) >= 2 {
				nd.Assume(false)
			}
			level := model.TxIsoLevel(nd.Choice("level", 4)) // the four isolation levels (the property's quantifier)
			type beginRes struct {
				tx  fs_db.Tx
				err error
			}
			a, b := both(func(side int) beginRes {
				var tx fs_db.Tx
				var err error
				if side == 0 {
					tx, err = p.in.Begin(ctx, level)
				} else {
					tx, err = p.ex.Begin(ctx, level)
				}
				return beginRes{tx, err}
			})
			sameClass(a.err, b.err, id+".Begin")
			if a.err == nil && b.err == nil {
				p.txIn, p.txEx = append(p.txIn, a.tx), append(p.txEx, b.tx)
			}
		case 5: // Commit / Rollback of the chosen transaction
			if t < 0 {
				nd.Assume(false)
			}
			commit := nd.Choice("commit", 2) == 1
			a, b := both(func(side int) error {
				var tx fs_db.Tx
				if side == 0 {
					tx = p.txIn[t]
				} else {
					tx = p.txEx[t]
				}
				if commit {
					return tx.Commit(ctx)
				}
				return tx.Rollback(ctx)
			})
			sameClass(a, b, id+".end-tx")
			// late use through the ended handles must also agree (C13 through both clients)
			la, lb := both(func(side int) error {
				if side == 0 {
					return p.txIn[t].Commit(ctx)
				}
				return p.txEx[t].Commit(ctx)
			})
			sameClass(la, lb, id+".late-Commit")
			// ... and the late reads (no extra paths: all three are issued)
			ga, gb := both(func(side int) error {
				var tx fs_db.Tx = p.txIn[t]
				if side == 1 {
					tx = p.txEx[t]
				}
				_, err := tx.GetKeys(ctx)
				return err
			})
			sameClass(ga, gb, id+".late-GetKeys")
			ra, rb := both(func(side int) error {
				var tx fs_db.Tx = p.txIn[t]
				if side == 1 {
					tx = p.txEx[t]
				}
				_, err := tx.Get(ctx, "a")
				return err
			})
			sameClass(ra, rb, id+".late-Get")
			p.txIn[t], p.txEx[t] = nil, nil
		}
		p.compareReads(id)
	}
	nd.Reach("H11a.end")
}

// VerifH11b: every error the server can produce maps to the same sentinel on the client, under
// arbitrary wrapping, with and without the status details.
func VerifH11b() {
	which := nd.Choice("sentinel", len(sentinels)+1) // last = a foreign error
	var e error
	if which < len(sentinels) {
		e = sentinels[which]
	} else {
		e = errors.New("some foreign error")
	}
	depth := nd.Choice("wrap-depth", 4)
	for i := 0; i < depth; i++ {
		switch nd.Choice("wrap", 3) {
		case 0:
			e = fmt.Errorf("layer: %w", e)
		case 1:
			e = errors.Join(errors.New("other"), e)
		case 2:
			e = errors.Join(e, errors.New("other"))
		}
	}
	verifenv.DropDetails = nd.Choice("details-dropped", 2) == 1
	onWire := verifenv.Transport(adapter.Error(e))
	got := adapter.ClientError(onWire)
	nd.Assert(got != nil, "H11b.error-stays-error")
	for i, s := range sentinels[:7] {
		want := errors.Is(e, s)
		if verifenv.DropDetails && s == fs_db.ErrHeaderNotFound {
			continue // has no status code of its own: reported as a note, DESIGN 5 C11 (3)
		}
		nd.Assert(errors.Is(got, s) == want, "H11b.class-"+sentinelNames[i])
	}
	if which >= len(sentinels)-1 {
		nd.Assert(errors.Is(got, fs_db.ErrUnknown), "H11b.foreign-or-unknown-maps-to-ErrUnknown")
	}
	nd.Reach("H11b.end")
}

// VerifH11c: isolation levels survive the conversion to the wire and back; anything else is the default.
func VerifH11c() {
	l := model.TxIsoLevel(nd.U8("level"))
	back := isoLevel.Convert(isoLevel.ConvertToGrpc(l))
	nd.Assert(nd.Implies(l <= fs_db.IsoLevelSerializable, back == l), "H11c.level-roundtrip")
	nd.Assert(nd.Implies(l > fs_db.IsoLevelSerializable, back == fs_db.IsoLevelDefault), "H11c.out-of-range-is-default")
	g := pb.TxIsoLevel(nd.I32("wire-level"))
	m := isoLevel.Convert(g)
	nd.Assert(nd.Implies(nd.Or(g < 0, g > 3), m == fs_db.IsoLevelDefault), "H11c.unknown-wire-level-is-default")
	nd.Assert(nd.Implies(nd.And(g >= 0, g <= 3), isoLevel.ConvertToGrpc(m) == g), "H11c.wire-roundtrip")
	nd.Reach("H11c.end")
}

var errMedia = errors.New("input/output error")

// VerifH11d: a fault in the middle of a download. The content file on the server (and, in lock
// step, the one of the inline client) fails to read from a chosen offset on: whatever the inline
// client reports for Get and GetReader+ReadAll, the gRPC client reports the same class - an error
// that arrives after the header and some chunks is not swallowed.
func VerifH11d() {
	nd.SetPreemptionBound(0)
	concreteCounter = true
	p := &pair{keys: []string{"a"}}
	cfg := stdConfig()
	verifenv.Switch(0)
	p.in, _ = openSeq(cfg)
	verifenv.Switch(1)
	p.ex, _, _ = openExternal(cfg)
	n := []int{1, 2049, 4097}[nd.Choice("len", 3)]
	val := nd.Bytes("val", n)
	a, b := both(func(side int) error { return p.store(side, -1).Set(ctx, "a", val) })
	nd.Assert(a == nil && b == nil, "H11d.set")
	// the read at or beyond this offset fails (n itself: the read that would report the end)
	offs := []int{0, 1, 2048, 4096, n}
	failAt := offs[nd.Choice("read-fails-from-offset", len(offs))]
	if failAt > n {
		nd.Assume(false)
	}
	hook := func(path string, pos int) error {
		if pos >= failAt {
			return errMedia
		}
		return nil
	}
	both(func(side int) int { verifenv.FS.OnRead = hook; return 0 })
	ga, gb := both(func(side int) getRes {
		v, err := p.store(side, -1).Get(ctx, "a")
		return getRes{v, err}
	})
	nd.Assert(ga.err != nil, "H11d.inline-reports-the-read-error")
	sameClass(ga.err, gb.err, "H11d.Get")
	ra, rb := both(func(side int) getRes {
		r, err := p.store(side, -1).GetReader(ctx, "a")
		if err != nil {
			return getRes{nil, err}
		}
		v, rerr := readAll(r)
		return getRes{v, rerr}
	})
	nd.Assert(ra.err != nil, "H11d.inline-reader-reports-the-read-error")
	sameClass(ra.err, rb.err, "H11d.GetReader")
	both(func(side int) int { verifenv.FS.OnRead = nil; return 0 })
	p.compareReads("H11d.after")
	nd.Reach("H11d.end")
}

// VerifH11e: the server ends an upload before the client has sent it all. The handler of the
// upload runs concurrently with the sending client (loop-back in concurrent mode); for an empty
// key it returns right after the header, and gRPC answers the client's further Sends with io.EOF,
// the verdict being available through CloseAndRecv. Whatever the interleaving, the gRPC client
// reports the class the inline client reports (ErrEmptyKey), for every content size; a valid key
// takes the same path and must succeed.
func VerifH11e() {
	P := 1
	if nd.Tier() == 1 {
		P = 2
	}
	nd.Bound("H11e.preemption_bound", P)
	concreteCounter = true
	p := &pair{keys: []string{"a"}}
	cfg := stdConfig()
	verifenv.Switch(0)
	p.in, _ = openSeq(cfg)
	verifenv.Switch(1)
	var lc *loopClient
	p.ex, _, lc = openExternal(cfg)
	lc.concurrentUploads = true
	key := []string{"", "a"}[nd.Choice("key", 2)]
	val := nd.Bytes("val", []int{1, 2049, 4097}[nd.Choice("len", 3)])
	api := nd.Choice("api", 3)
	nd.SpawnRunsFirst(true)
	a, b := both(func(side int) error {
		if side == 1 {
			nd.SetPreemptionBound(P)
			defer nd.SetPreemptionBound(0)
		}
		st := p.store(side, -1)
		switch api {
		case 0:
			return st.Set(ctx, key, val)
		case 1:
			return st.SetReader(ctx, key, bytes.NewReader(val))
		}
		f, err := st.Create(ctx, key)
		if err != nil {
			return err
		}
		_, werr := f.Write(val)
		cerr := f.Close()
		if werr != nil {
			return werr
		}
		return cerr
	})
	nd.SpawnRunsFirst(false)
	sameClass(a, b, "H11e.upload")
	if key == "" {
		nd.Assert(errors.Is(a, fs_db.ErrEmptyKey), "H11e.inline-rejects-empty-key")
	} else {
		nd.Assert(a == nil, "H11e.inline-accepts")
	}
	lc.concurrentUploads = false
	p.compareReads("H11e.after")
	nd.Reach("H11e.end")
}
