//go:build verif

package verifstack

import (
	"github.com/glebziz/fs_db"
	"github.com/glebziz/fs_db/internal/verifenv"
	nd "github.com/glebziz/fs_db/internal/verifnd"
)

var h15AtLimit bool

// VerifH15b: the same with a content directory already at the limit, both goroutines writing:
// the directory repository's Remove/Create/Get run concurrently.
func VerifH15b() {
	h15AtLimit = true
	VerifH15()
}

// VerifH15: first use of each operation right after Open, from two goroutines at once, then
// mixed operations; the happens-before monitor of the engine watches every memory cell allocated
// by fs_db (and glebziz/containers) code.
func VerifH15() {
	P := 1
	if nd.Tier() == 1 {
		P = 2
	}
	nd.Bound("H15.preemption_bound", P)
	concreteCounter = true
	cfg := stdConfig("r1", "r2")
	if h15AtLimit {
		// an existing content directory already holds as many entries as the limit: the first
		// writes rotate it out (dir repository Remove/Create) while the other goroutine reads it
		d := "r1/aaaaaaaa-aaaa-4aaa-8aaa-aaaaaaaaaaa1"
		verifenv.FS.PutDir(d)
		verifenv.ExtraEntries = func(dir string) uint64 {
			if dir == d {
				return 100
			}
			return 0
		}
	}
	w := newWorld(cfg, []string{"a", "b"})
	op := func(who string) func() {
		k := 0
		if !h15AtLimit {
			k = nd.Choice(who+"-first-op", 5)
		}
		v := w.freshVal()
		return func() {
			switch k {
			case 0:
				_ = w.d.Set(ctx, "a", v)
			case 1:
				_, _ = w.d.Get(ctx, "a")
			case 2:
				t, err := w.d.Begin(ctx, fs_db.IsoLevelRepeatableRead)
				if err == nil {
					_ = t.Set(ctx, "b", v)
					_ = t.Commit(ctx)
				}
			case 3:
				_, _ = w.d.GetKeys(ctx)
			case 4:
				_ = w.d.Delete(ctx, "a")
			}
			// a second, mixed operation
			if who == "A" {
				_ = w.d.Set(ctx, "b", v)
			} else {
				_ = w.c.Cleaner().DeleteOld(ctx)
			}
		}
	}
	fa, fb := op("A"), op("B")
	nd.SetPreemptionBound(P)
	go fb()
	fa()
	nd.JoinAll()
	nd.SetPreemptionBound(0)
	nd.Reach("H15.end")
}

// VerifH15c: the cleanup re-activating a directory while another goroutine writes. A content
// directory that reached the limit has been rotated out of the registry; a version whose content
// lies in it is superseded; then the collector (with its physical deletions, which put the
// directory back into the registry) runs concurrently with a Set that reads the registry.
func VerifH15c() {
	P := 1
	if nd.Tier() == 1 {
		P = 2
	}
	nd.Bound("H15c.preemption_bound", P)
	nd.RaceMonitor(true)
	concreteCounter = true
	cfg := stdConfig("r1")
	w := newWorld(cfg, []string{"a", "b"})
	// the first write creates the directory d1 ...
	nd.Assert(w.d.Set(ctx, "a", w.freshVal()) == nil, "H15c.first-write")
	var d1 string
	for _, p := range verifenv.FS.Children("r1") {
		d1 = "r1/" + p
	}
	// ... which then fills up (other files appear in it): the next write rotates it out
	verifenv.ExtraEntries = func(dir string) uint64 {
		if dir == d1 {
			return 100
		}
		return 0
	}
	nd.Assert(w.d.Set(ctx, "b", w.freshVal()) == nil, "H15c.rotating-write")
	// the version in d1 is superseded, and d1 has room again
	nd.Assert(w.d.Set(ctx, "a", w.freshVal()) == nil, "H15c.overwrite")
	verifenv.ExtraEntries = nil
	v := w.freshVal()
	nd.SpawnRunsFirst(P == 1)
	nd.SetPreemptionBound(P)
	go func() {
		_ = w.c.Cleaner().DeleteOld(ctx)
		verifenv.RunJobs()
	}()
	_ = w.d.Set(ctx, "b", v)
	nd.JoinAll()
	nd.SetPreemptionBound(0)
	nd.Reach("H15c.end")
}
