//go:build verif

package sequence

// VerifSetCounter / VerifCounter give harnesses direct access to the process-global counter
// (overlay only; nothing is committed to the repository).
func VerifSetCounter(v uint64) { seq = v }
func VerifCounter() uint64     { return seq }
