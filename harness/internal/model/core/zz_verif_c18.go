//go:build verif

package core

import (
	"github.com/glebziz/fs_db/internal/model"
	"github.com/glebziz/fs_db/internal/model/sequence"
	nd "github.com/glebziz/fs_db/internal/verifnd"
)

// C18 harnesses: the per-key version store reached through core.Transaction, against a
// linear-scan specification written over the ghost sequence the harness keeps.

var verifIDs = []string{"c0", "c1", "c2", "c3", "c4", "c5", "c6", "c7", "c8", "c9", "c10", "c11", "c12", "c13", "c14", "c15", "c16", "c17", "c18", "c19"}

func verifN18() int {
	if nd.Tier() == 1 {
		return 12
	}
	return 6
}

// verifBuild builds a list of n versions with symbolic, strictly increasing, non-zero seqs using
// the real Transaction.PushBack.
func verifBuild(tx *Transaction, n int) []sequence.Seq {
	seqs := make([]sequence.Seq, n)
	prev := sequence.Seq(0)
	for i := 0; i < n; i++ {
		s := sequence.Seq(nd.U64("s"))
		nd.Assume(s > prev)
		seqs[i] = s
		prev = s
		node := new(Node[model.File])
		node.SetV(model.File{Key: "k", TxId: "t", ContentId: verifIDs[i], Seq: s})
		tx.PushBack(node)
	}
	return seqs
}

// verifSpecLookup asserts got == spec(LastBefore(p)) over ghost seqs/ids.
func verifSpecLookup(got model.File, seqs []sequence.Seq, ids []string, p sequence.Seq, id string) {
	n := len(seqs)
	for j := 0; j < n; j++ {
		isJ := seqs[j] < p
		if j < n-1 {
			isJ = nd.And(isJ, seqs[j+1] >= p)
		}
		nd.Assert(nd.Implies(isJ, nd.And(got.Seq == seqs[j], got.ContentId == ids[j], got.Key == "k")), id+".hit")
	}
	none := true
	if n > 0 {
		none = seqs[0] >= p
	}
	nd.Assert(nd.Implies(none, nd.And(got.Seq == 0, got.ContentId == "", got.Key == "")), id+".none")
}

func verifSpecLatest(got model.File, seqs []sequence.Seq, ids []string, id string) {
	if len(seqs) == 0 {
		nd.Assert(nd.And(got.Seq == 0, got.ContentId == ""), id+".latest-empty")
		return
	}
	nd.Assert(nd.And(got.Seq == seqs[len(seqs)-1], got.ContentId == ids[len(ids)-1]), id+".latest")
}

// verifCheckFile: I1 (list shape), I2 (mirror), I3 (order) against the ghost sequence.
func verifCheckFile(f *file, seqs []sequence.Seq, ids []string, id string) {
	cnt := 0
	if f != nil && f.l.root.next != nil {
		nd.Assert(f.l.root.v.Seq == 0, id+".root-zero")
		for n := f.l.root.next; n != &f.l.root; n = n.next {
			if n == nil || cnt >= len(seqs) {
				nd.Assert(false, id+".list-shape")
				return
			}
			nd.Assert(n.v.Seq == seqs[cnt], id+".list-seq")
			nd.Assert(n.v.ContentId == ids[cnt], id+".list-id")
			nd.Assert(n.next != nil, id+".next-nil")
			if n.next == nil {
				return
			}
			nd.Assert(n.next.prev == n, id+".links")
			if !f.withoutSearch {
				if cnt >= len(f.arr) {
					nd.Assert(false, id+".mirror-short")
					return
				}
				nd.Assert(f.arr[cnt] == n, id+".mirror")
			}
			cnt++
		}
	}
	nd.Assert(cnt == len(seqs), id+".list-len")
	if f != nil && !f.withoutSearch {
		nd.Assert(len(f.arr) == len(seqs), id+".mirror-len")
	}
}

func VerifH18a() {
	N := verifN18()
	nd.Bound("H18a.max_list_length", N)
	n := nd.Choice("n", N+1)
	var tx Transaction
	seqs := verifBuild(&tx, n)
	ids := verifIDs[:n]
	p := sequence.Seq(nd.U64("p"))
	f := tx.File("k")
	verifCheckFile(f, seqs, ids, "H18a.inv")
	got := f.LastBefore(p)
	verifSpecLookup(got, seqs, ids, p, "H18a.lastbefore")
	verifSpecLatest(f.Latest(), seqs, ids, "H18a")
	nd.Reach("H18a.end")
}

// verifCollect is the exact loop of usecase/core.(*UseCase).DeleteOld for one key.
func verifCollect(f *file, h sequence.Seq) []model.File {
	var removed []model.File
	for file := range f.IterateBeforeSeq(h) {
		removed = append(removed, file)
		n := f.PopFront()
		_ = n
	}
	return removed
}

func VerifH18b() {
	N := verifN18()
	if nd.Tier() == 1 {
		N = 9
	}
	nd.Bound("H18b.max_list_length", N)
	n := nd.Choice("n", N+1)
	var tx Transaction
	seqs := verifBuild(&tx, n)
	ids := verifIDs[:n]
	h := sequence.Seq(nd.U64("h"))
	q := sequence.Seq(nd.U64("q"))
	nd.Assume(q >= h)
	f := tx.File("k")
	before := f.LastBefore(q)
	removed := verifCollect(f, h)
	r := len(removed)
	// exactly the versions with a successor not newer than the horizon, a prefix, never the last
	if n == 0 {
		nd.Assert(r == 0, "H18b.empty")
	} else {
		nd.Assert(r <= n-1, "H18b.last-kept")
		if r > n-1 {
			return
		}
		for j := 0; j < r; j++ {
			nd.Assert(seqs[j+1] <= h, "H18b.removed-had-old-successor")
			nd.Assert(nd.And(removed[j].Seq == seqs[j], removed[j].ContentId == ids[j]), "H18b.yielded-in-order")
		}
		if r < n-1 {
			nd.Assert(seqs[r+1] > h, "H18b.nothing-more-to-remove")
		}
	}
	if r > 0 {
		nd.Reach("H18b.removed-some")
	}
	verifCheckFile(f, seqs[r:], ids[r:], "H18b.inv")
	after := f.LastBefore(q)
	// lookups at or after the horizon are unchanged. The horizon is drawn from the same counter as
	// the version numbers (I6), so it never equals one; at q == h the claim needs that.
	distinct := true
	for j := 0; j < n; j++ {
		distinct = nd.And(distinct, seqs[j] != h)
	}
	same := nd.And(before.Seq == after.Seq, before.ContentId == after.ContentId)
	nd.Assert(nd.Implies(nd.Or(q > h, distinct), same), "H18b.lookup-unchanged")
	verifSpecLookup(after, seqs[r:], ids[r:], q, "H18b.lookup-after")
	verifSpecLatest(f.Latest(), seqs, ids, "H18b")
	// idempotence
	again := verifCollect(f, h)
	nd.Assert(len(again) == 0, "H18b.idempotent")
	nd.Reach("H18b.end")
}

// VerifH18c: sequences of append / pop-front / pop-back / collect on an arbitrary valid list.
func VerifH18c() {
	N, M := 3, 3
	if nd.Tier() == 1 {
		N, M = 4, 4
	}
	nd.Bound("H18c.initial_length_max", N)
	nd.Bound("H18c.operations", M)
	n := nd.Choice("n", N+1)
	var tx Transaction
	seqs := verifBuild(&tx, n)
	ids := append([]string{}, verifIDs[:n]...)
	nextID := n
	// the capacity of the search mirror is part of the state too: a key that once had many
	// versions keeps a large backing array after they are collected (PopFront shifts in place).
	// Any capacity >= length is reachable; tight, 64 and 1024 are tried.
	if f := tx.File("k"); f != nil && !f.withoutSearch {
		if c := []int{0, 64, 1024}[nd.Choice("mirror-capacity", 3)]; c > len(f.arr) {
			arr := make([]*Node[model.File], len(f.arr), c)
			copy(arr, f.arr)
			f.arr = arr
			nd.Reach("H18c.spare-capacity")
		}
	}
	m := nd.Choice("m", M+1)
	for step := 0; step < m; step++ {
		f := tx.File("k")
		switch nd.Choice("op", 4) {
		case 0: // append a fresh, greater version
			s := sequence.Seq(nd.U64("s"))
			if len(seqs) > 0 {
				nd.Assume(s > seqs[len(seqs)-1])
			} else {
				nd.Assume(s > 0)
			}
			node := new(Node[model.File])
			node.SetV(model.File{Key: "k", TxId: "t", ContentId: verifIDs[nextID], Seq: s})
			tx.PushBack(node)
			seqs = append(seqs, s)
			ids = append(ids, verifIDs[nextID])
			nextID++
		case 1:
			if f == nil {
				continue
			}
			nn := f.PopFront()
			if len(seqs) == 0 {
				nd.Assert(nn == nil, "H18c.popfront-empty")
			} else {
				nd.Assert(nn != nil, "H18c.popfront-nil")
				if nn == nil {
					return
				}
				nd.Assert(nd.And(nn.v.Seq == seqs[0], nn.v.ContentId == ids[0]), "H18c.popfront-value")
				seqs, ids = seqs[1:], ids[1:]
			}
		case 2:
			if f == nil {
				continue
			}
			nn := f.PopBack()
			if len(seqs) == 0 {
				nd.Assert(nn == nil, "H18c.popback-empty")
			} else {
				nd.Assert(nn != nil, "H18c.popback-nil")
				if nn == nil {
					return
				}
				nd.Assert(nd.And(nn.v.Seq == seqs[len(seqs)-1], nn.v.ContentId == ids[len(ids)-1]), "H18c.popback-value")
				seqs, ids = seqs[:len(seqs)-1], ids[:len(ids)-1]
			}
		case 3:
			h := sequence.Seq(nd.U64("h"))
			removed := verifCollect(f, h)
			r := len(removed)
			if len(seqs) == 0 {
				nd.Assert(r == 0, "H18c.collect-empty")
			} else {
				nd.Assert(r <= len(seqs)-1, "H18c.collect-last-kept")
				if r > len(seqs)-1 {
					return
				}
				for j := 0; j < r; j++ {
					nd.Assert(seqs[j+1] <= h, "H18c.collect-removed-ok")
				}
				if r < len(seqs)-1 {
					nd.Assert(seqs[r+1] > h, "H18c.collect-complete")
				}
				seqs, ids = seqs[r:], ids[r:]
			}
		}
		f = tx.File("k")
		verifCheckFile(f, seqs, ids, "H18c.inv")
		p := sequence.Seq(nd.U64("p"))
		verifSpecLookup(f.LastBefore(p), seqs, ids, p, "H18c.lastbefore")
		verifSpecLatest(f.Latest(), seqs, ids, "H18c")
	}
	nd.Reach("H18c.end")
}

// ---- exported observation helpers for harnesses in other packages (overlay only) ----

// VerifDump returns the versions of key in tx in list order and whether the representation
// invariants I1 (well-formed circular list, zero root value) and I2 (array mirror holds exactly
// the list's nodes, empty for all-store files) hold.
func VerifDump(tx *Transaction, key string) ([]model.File, bool) {
	if tx == nil || tx.store == nil {
		return nil, true
	}
	f := tx.store[key]
	if f == nil {
		return nil, true
	}
	var out []model.File
	ok := true
	if f.l.root.next != nil {
		if f.l.root.v.Seq != 0 || f.l.root.v.Key != "" {
			ok = false
		}
		cnt := 0
		for n := f.l.root.next; n != &f.l.root; n = n.next {
			if n == nil || cnt > 64 {
				return out, false
			}
			if n.next == nil || n.next.prev != n {
				return out, false
			}
			if !f.withoutSearch {
				if cnt >= len(f.arr) || f.arr[cnt] != n {
					ok = false
				}
			}
			out = append(out, n.v)
			cnt++
		}
	}
	if f.withoutSearch {
		if len(f.arr) != 0 {
			ok = false
		}
	} else if len(f.arr) != len(out) {
		ok = false
	}
	return out, ok
}

// VerifKeys lists the keys that have a per-key store in tx (possibly empty lists), in map order.
func VerifKeys(tx *Transaction) []string {
	var out []string
	if tx == nil {
		return nil
	}
	for k := range tx.store {
		out = append(out, k)
	}
	return out
}

// VerifLinks checks I4 for key: every node of tx's list has a link that is a node of all's list
// of the same key carrying an equal value; all-store nodes have no link.
func VerifLinks(tx, all *Transaction, key string) bool {
	if tx == nil || tx.store == nil || tx.store[key] == nil {
		return true
	}
	f := tx.store[key]
	if f.l.root.next == nil {
		return true
	}
	var af *file
	if all.store != nil {
		af = all.store[key]
	}
	for n := f.l.root.next; n != &f.l.root; n = n.next {
		if n == nil || n.link == nil || af == nil || af.l.root.next == nil {
			return false
		}
		found := false
		for a := af.l.root.next; a != &af.l.root; a = a.next {
			if a == nil {
				return false
			}
			if a == n.link {
				found = true
				if a.link != nil {
					return false
				}
			}
		}
		if !found || n.link.v != n.v {
			return false
		}
	}
	return true
}

// VerifRaceSelfTest: monitor self-test - properly locked accesses must not be reported.
func VerifRaceSelfTest() {
	nd.SetPreemptionBound(2)
	p := NewPool[int](nil)
	go func() {
		x := p.Acquire()
		p.Release(x)
	}()
	y := p.Acquire()
	p.Release(y)
	nd.JoinAll()
	nd.Reach("selftest.end")
}

// VerifPoolSound: the free list of a pool holds no object twice and none of the given live
// objects (an object that is both handed out and free would be handed out to a second owner).
func VerifPoolSound[T any](p *Pool[T], live []*T) bool {
	if p == nil {
		return true
	}
	for i, e := range p.free {
		for j := 0; j < i; j++ {
			if p.free[j] == e {
				return false
			}
		}
		for _, l := range live {
			if l == e {
				return false
			}
		}
	}
	return true
}

// VerifNodes: the nodes of tx's list for key (at most 64).
func VerifNodes(tx *Transaction, key string) []*Node[model.File] {
	if tx == nil || tx.store == nil || tx.store[key] == nil || tx.store[key].l.root.next == nil {
		return nil
	}
	f := tx.store[key]
	var out []*Node[model.File]
	for n := f.l.root.next; n != nil && n != &f.l.root && len(out) < 64; n = n.next {
		out = append(out, n)
	}
	return out
}

// VerifH18d: a recycled Transaction. One core.Transaction object lives through three lifetimes
// (it is cleared in between, as the transaction pool of the use case does with it); in each it
// receives versions of 1-3 distinct keys. In every lifetime every key has a version store of its
// own: lookups return that key's versions only, and the file pool of the transaction stays sound.
func VerifH18d() {
	var tx Transaction
	keys := []string{"p", "q", "r"}
	nextID := 0
	for life := 0; life < 3; life++ {
		nk := 1 + nd.Choice("keys-in-this-lifetime", 3)
		type ver struct {
			seq sequence.Seq
			id  string
		}
		last := make([]ver, nk)
		for round := 0; round < 2; round++ {
			for i := 0; i < nk; i++ {
				s := sequence.Seq(uint64(100*life + 10*round + i + 1))
				id := verifIDs[nextID%len(verifIDs)]
				nextID++
				node := new(Node[model.File])
				node.SetV(model.File{Key: keys[i], TxId: "t", ContentId: id, Seq: s})
				tx.PushBack(node)
				last[i] = ver{s, id}
			}
		}
		var live []*file
		for i := 0; i < nk; i++ {
			f := tx.File(keys[i])
			nd.Assert(f != nil, "H18d.file-present")
			if f == nil {
				return
			}
			for j := 0; j < i; j++ {
				nd.Assert(tx.File(keys[j]) != f, "H18d.two-keys-share-one-version-store")
			}
			live = append(live, f)
			got := f.Latest()
			nd.Assert(nd.And(got.Key == keys[i], got.Seq == last[i].seq, got.ContentId == last[i].id), "H18d.latest-of-own-key")
			lb := f.LastBefore(last[i].seq)
			nd.Assert(nd.And(lb.Key == keys[i], lb.Seq == last[i].seq-10), "H18d.lastbefore-of-own-key")
		}
		nd.Assert(tx.Len() == nk, "H18d.key-count")
		nd.Assert(VerifPoolSound(&tx.pool, live), "H18d.file-pool-holds-a-live-store")
		tx.Clear()
		nd.Assert(tx.Len() == 0, "H18d.cleared")
		nd.Assert(VerifPoolSound(&tx.pool, nil), "H18d.file-pool-holds-a-store-twice")
	}
	nd.Reach("H18d.end")
}
