//go:build verif

package wpool

import (
	"context"

	nd "github.com/glebziz/fs_db/internal/verifnd"
)

// VerifH16: the pool runs every accepted job exactly once (also on the deferred path, without
// further Sends), Send never waits for a free worker, Stop returns and nothing starts after it.
// One worker (channel capacity 2); jobs count their executions and may block on a gate (busy
// worker); the SendDuration timer may fire at any scheduling point.
func VerifH16() {
	P := 2
	S := 2
	if nd.Tier() == 1 {
		S = 3
	}
	nd.Bound("H16.preemption_bound", P)
	nd.Bound("H16.sends", S)
	// the happens-before monitor watches the pool's own state and the node pool of its deferred list
	nd.RaceMonitor(true)
	nd.SetPreemptionBound(P)
	p := New(Options{NumWorkers: 1, SendDuration: 1})
	ctx := context.Background()
	p.Run(ctx)
	counts := make([]int, S)
	gate := make(chan struct{})
	busy := nd.Choice("first-job-blocks", 2) == 1
	job := func(i int) Event {
		return Event{Caller: "verif", Fn: func(ctx context.Context) error {
			counts[i]++
			if i == 0 && busy {
				<-gate // the worker stays busy until the harness opens the gate
			}
			return nil
		}}
	}
	// every sender hands over its job under a context of its own and cancels it as soon as Send
	// has returned (a request context; `defer cancel()`): an accepted job runs all the same
	send := func(i int) {
		sctx, cancel := context.WithCancel(ctx)
		p.Send(sctx, job(i))
		cancel()
	}
	split := nd.Choice("second-sender-from", S+1) // jobs >= split are sent by a second thread
	if split < S {
		go func() {
			for i := split; i < S; i++ {
				send(i)
			}
		}()
	}
	for i := 0; i < split; i++ {
		send(i)
	}
	// Send returned (it never waits for a free worker). Let everything settle, then free the worker.
	nd.Quiescent()
	close(gate)
	nd.Quiescent()
	for i := 0; i < S; i++ {
		nd.Assert(counts[i] <= 1, "H16.job-ran-twice")
		nd.Assert(counts[i] >= 1, "H16.accepted-job-not-run-at-quiescence-without-further-sends")
	}
	p.Stop()
	snapshot := append([]int{}, counts...)
	nd.Quiescent()
	for i := 0; i < S; i++ {
		nd.Assert(counts[i] == snapshot[i], "H16.job-started-after-stop")
	}
	nd.Reach("H16.end")
}

// VerifH16b: Stop racing with Send, and Run/Stop/Run: no panic, no deadlock, at most once.
func VerifH16b() {
	P := 2
	nd.Bound("H16b.preemption_bound", P)
	nd.SetPreemptionBound(P)
	p := New(Options{NumWorkers: 1, SendDuration: 1})
	ctx := context.Background()
	p.Run(ctx)
	counts := make([]int, 3)
	job := func(i int) Event {
		return Event{Caller: "verif", Fn: func(ctx context.Context) error { counts[i]++; return nil }}
	}
	go func() {
		p.Send(ctx, job(0))
		p.Send(ctx, job(1))
	}()
	p.Stop()
	nd.JoinAll()
	nd.Quiescent()
	for i := 0; i < 2; i++ {
		nd.Assert(counts[i] <= 1, "H16b.job-ran-twice")
	}
	snapshot := append([]int{}, counts...)
	// a stopped pool can be run again and works
	p.Run(ctx)
	p.Send(ctx, job(2))
	nd.Quiescent()
	nd.Assert(counts[2] == 1, "H16b.job-after-rerun")
	nd.Assert(counts[0] == snapshot[0] && counts[1] == snapshot[1], "H16b.old-job-started-after-stop")
	p.Stop()
	nd.Reach("H16b.end")
}

// VerifH16c: orders around the first Run: Send and Stop on a pool that was never run, then
// Run, Send, Stop, Stop, Send: no panic, no deadlock, jobs sent while not running are not run later.
func VerifH16c() {
	nd.SetPreemptionBound(1)
	p := New(Options{NumWorkers: 1, SendDuration: 1})
	ctx := context.Background()
	counts := make([]int, 3)
	job := func(i int) Event {
		return Event{Caller: "verif", Fn: func(ctx context.Context) error { counts[i]++; return nil }}
	}
	switch nd.Choice("before-run", 3) {
	case 1:
		p.Send(ctx, job(0)) // not running: must neither panic nor block
		nd.Reach("H16c.send-before-run")
	case 2:
		p.Stop()
	}
	p.Run(ctx)
	p.Send(ctx, job(1))
	nd.Quiescent()
	nd.Assert(counts[1] == 1, "H16c.job-while-running")
	p.Stop()
	p.Stop()
	p.Send(ctx, job(2))
	nd.Quiescent()
	nd.Assert(counts[2] == 0, "H16c.job-after-stop-not-run")
	nd.Assert(counts[0] <= 1, "H16c.early-job-at-most-once")
	nd.Reach("H16c.end")
}

// VerifH16d: Run arriving while Stop is waiting for an in-flight job (and a second Stop racing
// the first): Stop returns once the job has finished, nothing panics or hangs, the job ran once,
// and whatever state the race leaves (stopped, or running again) a final Stop ends it.
func VerifH16d() {
	P := 2
	nd.Bound("H16d.preemption_bound", P)
	nd.SetPreemptionBound(P)
	p := New(Options{NumWorkers: 1, SendDuration: 1})
	ctx := context.Background()
	p.Run(ctx)
	counts := make([]int, 2)
	gate := make(chan struct{})
	inFlight := nd.Choice("job-in-flight-at-stop", 2) == 1
	if inFlight {
		p.Send(ctx, Event{Caller: "verif", Fn: func(ctx context.Context) error {
			counts[0]++
			<-gate
			return nil
		}})
		nd.Quiescent() // the worker is inside the job
		nd.Assert(counts[0] == 1, "H16d.job-started")
	}
	stopReturned := false
	go func() {
		p.Stop()
		stopReturned = true
	}()
	if nd.Choice("racing-call", 2) == 0 {
		go func() { p.Run(ctx) }()
	} else {
		go func() { p.Stop() }()
	}
	nd.Quiescent()
	if inFlight {
		close(gate)
	}
	nd.Quiescent() // (not JoinAll: the workers of a pool that is running again never exit)
	nd.Assert(stopReturned, "H16d.stop-did-not-return-after-the-in-flight-job-finished")
	nd.Assert(counts[0] <= 1, "H16d.job-ran-twice")
	// whatever the race left: a job sent now runs at most once, and after a final Stop nothing starts
	p.Send(ctx, Event{Caller: "verif", Fn: func(ctx context.Context) error { counts[1]++; return nil }})
	nd.Quiescent()
	nd.Assert(counts[1] <= 1, "H16d.later-job-ran-twice")
	p.Stop()
	snapshot := append([]int{}, counts...)
	nd.Quiescent()
	nd.Assert(counts[0] == snapshot[0] && counts[1] == snapshot[1], "H16d.job-started-after-stop")
	nd.Reach("H16d.end")
}

// VerifOptions returns the options a pool was built with (overlay only).
func VerifOptions(p *Pool) Options { return p.opts }
