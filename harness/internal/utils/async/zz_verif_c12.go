//go:build verif

package async

import (
	"bytes"
	"io"

	nd "github.com/glebziz/fs_db/internal/verifnd"
)

// VerifH12: writer thread (0..3 Writes of 0..2 symbolic bytes, then Close) against the storing
// side (io.Copy from the read-writer), every interleaving at synchronisation granularity up to
// the preemption bound. sync.Cond is interpreted from its source over the runtime notify list.
func VerifH12() {
	P := 2
	if nd.Tier() == 1 {
		P = 3
	}
	nd.Bound("H12.preemption_bound", P)
	// the happens-before monitor watches the read-writer's fields and its buffer: an access that
	// slipped out of the critical section is reported whatever the explored schedules show
	nd.RaceMonitor(true)
	nd.SetPreemptionBound(P)
	rw := NewReadWriter()
	rw.Add(1)
	var sink bytes.Buffer
	go func() {
		defer rw.Done()
		_, err := io.Copy(&sink, rw)
		if err != nil {
			rw.SetError(err)
		}
	}()
	m := nd.Choice("writes", 4)
	var all []byte
	for i := 0; i < m; i++ {
		p := nd.Bytes("w", nd.Choice("size", 3))
		all = append(all, p...)
		n, err := rw.Write(p)
		nd.Assert(err == nil, "H12.write-ok")
		nd.Assert(n == len(p), "H12.write-count")
	}
	err := rw.Close()
	// Close returned (a schedule where it never does is reported as a deadlock)
	nd.Assert(err == nil, "H12.close-ok")
	nd.Assert(nd.EqBytes(sink.Bytes(), all), "H12.stored-is-concatenation-of-writes")
	nd.Reach("H12.end")
}
