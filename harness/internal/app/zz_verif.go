//go:build verif

package app

import "github.com/glebziz/fs_db/internal/di"

// VerifContainer returns the container of a server application built by New (overlay only).
func VerifContainer(a *app) *di.Container { return a.container }
