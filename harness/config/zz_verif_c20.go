//go:build verif

package config

import (
	"errors"
	"io"
	"runtime"
	"time"

	"github.com/glebziz/fs_db"
	"github.com/glebziz/fs_db/internal/verifenv"
	nd "github.com/glebziz/fs_db/internal/verifnd"
)

// VerifH20a: Storage.Valid for every directory limit, both path states, 0..2 roots.
func VerifH20a() {
	var s Storage
	if nd.Choice("dbpath", 2) == 1 {
		s.DbPath = "p"
	}
	pre := nd.U64("maxdir")
	s.MaxDirCount = pre
	nroots := nd.Choice("roots", 3)
	for i := 0; i < nroots; i++ {
		s.RootDirs = append(s.RootDirs, "r")
	}
	err := s.Valid()
	switch {
	case s.DbPath == "":
		nd.Assert(errors.Is(err, fs_db.ErrEmptyDbPath), "H20a.empty-dbpath")
		nd.Reach("H20a.dbpath")
	case nroots == 0:
		nd.Assert(errors.Is(err, fs_db.ErrEmptyRootDirs), "H20a.empty-roots")
		nd.Reach("H20a.roots")
	default:
		nd.Assert(err == nil, "H20a.valid")
		nd.Assert(s.MaxDirCount == nd.IteU64(pre < 100, 100, pre), "H20a.clamp")
		nd.Assert(s.MaxDirCount >= 100, "H20a.at-least-100")
		nd.Reach("H20a.ok")
	}
	nd.Assert(len(s.RootDirs) == nroots, "H20a.roots-untouched")
}

// A literal an environment variable may hold, with what the documented format says about it
// (decimal digits for counts and ports - a sign is accepted for the int-typed ones -, a Go duration
// for periods); stated here independently of the parsing code.
type verifLit struct {
	s   string
	ok  bool
	num uint64 // expected value for numeric/duration settings
}

type verifSetting struct {
	env  string
	lits []verifLit
}

var verifSettings = []verifSetting{
	{envPort, []verifLit{{"9999", true, 9999}, {"80x", false, 0}, {"0080", true, 80}, {"0x50", false, 0}, {"8_080", false, 0}, {" 80", false, 0}}},
	{envDbPath, []verifLit{{"/env/db", true, 0}}},
	{envDirCount, []verifLit{{"12345", true, 12345}, {"-1", false, 0}, {"0500", true, 500}, {"1_000", false, 0}, {"0x200", false, 0}, {"0b1100100", false, 0},
		{"18446744073709551615", true, 18446744073709551615}, {"18446744073709551616", false, 0}, {"+5", false, 0}, {"1e3", false, 0}}},
	{envRootDirs, []verifLit{{"ea;eb", true, 0}, {"ea", true, 0}, {"ea;eb;ec", true, 0}}},
	{envGCPeriod, []verifLit{{"90s", true, uint64(90 * time.Second)}, {"90", false, 0}, {"1h30m", true, uint64(90 * time.Minute)}, {"5 ms", false, 0}, {"1.5s", true, uint64(1500 * time.Millisecond)}}},
	{envNumWorkers, []verifLit{{"3", true, 3}, {"x", false, 0}, {"007", true, 7}, {"0x7", false, 0}, {"3.0", false, 0}}},
	{envSendDuration, []verifLit{{"5ms", true, uint64(5 * time.Millisecond)}, {"ms", false, 0}, {"2us", true, uint64(2 * time.Microsecond)}}},
}

// the lists the ROOT_DIRS literals stand for (';'-separated)
var verifRootLists = [][]string{{"ea", "eb"}, {"ea"}, {"ea", "eb", "ec"}}

// state of one variable: 0 absent, 1 set but empty, 2+i = literal i
func verifEnvValue(i, st int) (string, bool) {
	switch {
	case st == 0:
		return "", false
	case st == 1:
		return "", true
	}
	return verifSettings[i].lits[st-2].s, true
}

func verifLitOf(i, st int) (verifLit, bool) {
	if st < 2 {
		return verifLit{}, false
	}
	return verifSettings[i].lits[st-2], true
}

// VerifH20b: precedence default < file < environment and error reporting, through the real
// ParseConfig -> ParseEnv -> Storage.ParseEnv / WPool.ParseEnv.
func VerifH20b() {
	states := make([]int, len(verifSettings))
	f1 := nd.Choice("focus1", len(verifSettings))
	states[f1] = nd.Choice("state1", 2+len(verifSettings[f1].lits))
	if nd.Tier() == 1 {
		f2 := nd.Choice("focus2", len(verifSettings))
		if f2 != f1 {
			states[f2] = nd.Choice("state2", 2+len(verifSettings[f2].lits))
		}
	}
	if nd.Choice("others", 2) == 1 {
		for i := range states {
			if i != f1 && states[i] == 0 {
				states[i] = 2 // the first literal of every setting is well-formed
			}
		}
	}
	malformed := false
	for i, st := range states {
		if l, set := verifLitOf(i, st); set && !l.ok {
			malformed = true
		}
	}
	verifenv.EnvHook = func(key string) (string, bool) {
		for i := range verifSettings {
			if verifSettings[i].env == key {
				return verifEnvValue(i, states[i])
			}
		}
		return "", false
	}
	// the file layer: which fields the file contains is symbolic, and so are the numeric values
	useFile := nd.Choice("file", 4) // 0 none, 1 readable, 2 missing, 3 readable but without a YAML document (empty, comments only)
	pPort, pDir, pGC, pNW, pSD := nd.Bool("file.port"), nd.Bool("file.maxDirCount"), nd.Bool("file.gcPeriod"), nd.Bool("file.numWorkers"), nd.Bool("file.sendDuration")
	vPort, vDir, vGC, vNW, vSD := nd.U64("fv.port"), nd.U64("fv.maxDirCount"), nd.U64("fv.gcPeriod"), nd.U64("fv.numWorkers"), nd.U64("fv.sendDuration")
	fileDb, fileRoots := nd.Choice("file.dbPath", 2) == 1, nd.Choice("file.rootDirs", 2) == 1
	verifenv.YamlHook = func(v interface{}) error {
		if useFile == 3 {
			return io.EOF // what yaml.v2's Decode returns when the input holds no document
		}
		c := v.(*Config)
		c.Port = int(nd.IteU64(pPort, vPort, uint64(c.Port)))
		c.Storage.MaxDirCount = nd.IteU64(pDir, vDir, c.Storage.MaxDirCount)
		c.Storage.GCPeriod = time.Duration(nd.IteU64(pGC, vGC, uint64(c.Storage.GCPeriod)))
		c.WPool.NumWorkers = int(nd.IteU64(pNW, vNW, uint64(c.WPool.NumWorkers)))
		c.WPool.SendDuration = time.Duration(nd.IteU64(pSD, vSD, uint64(c.WPool.SendDuration)))
		if fileDb {
			c.Storage.DbPath = "file_db"
		}
		if fileRoots {
			c.Storage.RootDirs = []string{"fr1", "fr2"}
		}
		return nil
	}
	name := ""
	switch useFile {
	case 1:
		name = "conf.yaml"
		verifenv.FS.PutFile(name, []byte("x"))
	case 2:
		name = "missing.yaml"
	case 3:
		name = "empty.yaml"
		verifenv.FS.PutFile(name, nil)
	}
	inFile := useFile == 1

	got, err := ParseConfig(name)

	if useFile == 2 || malformed {
		nd.Assert(err != nil, "H20b.error-reported")
		nd.Assert(nd.And(got.Port == 0, got.Storage.DbPath == "", got.Storage.MaxDirCount == 0, len(got.Storage.RootDirs) == 0,
			got.Storage.GCPeriod == 0, got.WPool.NumWorkers == 0, got.WPool.SendDuration == 0), "H20b.zero-config-on-error")
		nd.Reach("H20b.error")
		return
	}
	nd.Assert(err == nil, "H20b.no-error")
	fromEnv := func(i int) bool { _, set := verifLitOf(i, states[i]); return set }
	envNum := func(i int) uint64 { l, _ := verifLitOf(i, states[i]); return l.num }
	// numeric / duration settings
	expPort := nd.IteU64(nd.And(inFile, pPort), vPort, defaultPort)
	if fromEnv(0) {
		expPort = envNum(0)
	}
	nd.Assert(uint64(got.Port) == expPort, "H20b.port")
	expDir := nd.IteU64(nd.And(inFile, pDir), vDir, defaultDirCount)
	if fromEnv(2) {
		expDir = envNum(2)
	}
	nd.Assert(got.Storage.MaxDirCount == expDir, "H20b.maxDirCount")
	expGC := nd.IteU64(nd.And(inFile, pGC), vGC, uint64(defaultGCPeriod))
	if fromEnv(4) {
		expGC = envNum(4)
	}
	nd.Assert(uint64(got.Storage.GCPeriod) == expGC, "H20b.gcPeriod")
	expNW := nd.IteU64(nd.And(inFile, pNW), vNW, uint64(runtime.GOMAXPROCS(0)))
	if fromEnv(5) {
		expNW = envNum(5)
	}
	nd.Assert(uint64(got.WPool.NumWorkers) == expNW, "H20b.numWorkers")
	expSD := nd.IteU64(nd.And(inFile, pSD), vSD, uint64(defaultSendDuration))
	if fromEnv(6) {
		expSD = envNum(6)
	}
	nd.Assert(uint64(got.WPool.SendDuration) == expSD, "H20b.sendDuration")
	// string settings
	expDb := defaultDbPath
	if inFile && fileDb {
		expDb = "file_db"
	}
	if fromEnv(1) {
		expDb = "/env/db"
	}
	nd.Assert(got.Storage.DbPath == expDb, "H20b.dbPath")
	expRoots := []string{defaultRootDir}
	if inFile && fileRoots {
		expRoots = []string{"fr1", "fr2"}
	}
	if fromEnv(3) {
		expRoots = verifRootLists[states[3]-2]
	}
	nd.Assert(len(got.Storage.RootDirs) == len(expRoots), "H20b.rootDirs-len")
	if len(got.Storage.RootDirs) == len(expRoots) {
		for i := range expRoots {
			nd.Assert(got.Storage.RootDirs[i] == expRoots[i], "H20b.rootDirs")
		}
	}
	// the defaults themselves are not modified by parsing
	nd.Assert(nd.And(defaultConfig.Port == defaultPort, defaultConfig.Storage.DbPath == defaultDbPath, len(defaultConfig.Storage.RootDirs) == 1,
		defaultConfig.Storage.RootDirs[0] == defaultRootDir), "H20b.defaults-untouched")
	// ... as a later parse in the same process shows: without file and environment it returns the defaults
	verifenv.EnvHook = func(key string) (string, bool) { return "", false }
	later, err := ParseConfig("")
	nd.Assert(err == nil, "H20b.later-parse-ok")
	nd.Assert(nd.And(later.Port == defaultPort, later.Storage.DbPath == defaultDbPath, later.Storage.MaxDirCount == defaultDirCount,
		len(later.Storage.RootDirs) == 1, later.Storage.GCPeriod == defaultGCPeriod, later.WPool.SendDuration == defaultSendDuration), "H20b.later-parse-returns-defaults")
	if len(later.Storage.RootDirs) == 1 {
		nd.Assert(later.Storage.RootDirs[0] == defaultRootDir, "H20b.later-parse-returns-defaults")
	}
	// and the configuration returned first is not changed by the later parse
	if len(got.Storage.RootDirs) == len(expRoots) {
		for i := range expRoots {
			nd.Assert(got.Storage.RootDirs[i] == expRoots[i], "H20b.earlier-result-stable")
		}
	}
	nd.Reach("H20b.ok")
}
