//go:build verif

package db

import (
	"github.com/glebziz/fs_db"
	"github.com/glebziz/fs_db/internal/di"
)

// VerifContainer exposes the DI container of an inline database to harnesses (overlay only),
// e.g. to invoke the cleaner's DeleteOld at chosen positions.
func VerifContainer(d fs_db.DB) *di.Container { return d.(*db).container }

// VerifTx fabricates a transaction handle for an arbitrary id (e.g. one that was never begun).
func VerifTx(d fs_db.DB, id string) fs_db.Tx {
	dd := d.(*db)
	t := tx{id: id, txUc: dd.container.Transaction()}
	return fs_db.CreateTx(dd, &t, t.ctx)
}
