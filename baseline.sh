#!/bin/sh
# Runs the repository's baseline suite (the BASELINE.json command) and prints pass/fail counts.
OUT=$(mktemp /tmp/verif-baseline.XXXXXX)
sh -c "$(python3 -c "import json;print(json.load(open('/root/.vp/BASELINE.json'))['cmd'])")" > "$OUT" 2>&1
python3 - "$OUT" <<'PY'
import json,sys
p=f=0; failed=[]
for l in open(sys.argv[1]):
    try: e=json.loads(l)
    except Exception: continue
    if e.get('Test') and e.get('Action')=='pass': p+=1
    if e.get('Test') and e.get('Action')=='fail': f+=1; failed.append(e['Package']+'::'+e['Test'])
print("baseline: pass",p,"fail",f)
for x in failed[:20]: print("  FAIL",x)
sys.exit(1 if f or p<508 else 0)
PY
rc=$?; rm -f "$OUT"; exit $rc
